"""Shared driver for the encode-side properties (C01-C07, C13, C14)."""
import random
import time

from vmon import core, gen, monitors, oracle

ASSUME_QR = [
    'refmodel/qr.py (independent ISO/IEC 18004 model and decoder; its tables were cross-validated once against segno.consts and are frozen in /verif)',
    "CPython's codecs iso-8859-1, shift_jis, utf-8, gb2312 (the codecs the property itself names) and zlib",
    'held = held on the executions listed here; inputs that were not generated are not covered',
]


# the documented parameter order of the public factories (docs/api.rst), written down here independently
DOCUMENTED_ORDER = {
    'make': ['error', 'version', 'mode', 'mask', 'encoding', 'eci', 'micro', 'boost_error'],
    'make_qr': ['error', 'version', 'mode', 'mask', 'encoding', 'eci', 'boost_error'],
    'make_micro': ['error', 'version', 'mode', 'mask', 'encoding', 'boost_error'],
    'make_sequence': ['error', 'version', 'mode', 'mask', 'encoding', 'boost_error', 'symbol_count'],
}
_DOC_DEFAULTS = {'error': None, 'version': None, 'mode': None, 'mask': None, 'encoding': None, 'eci': False, 'micro': None,
                 'boost_error': True, 'symbol_count': None}


def positional_args(fn_name, kw):
    """The keyword arguments of a call as the positional arguments the documentation allows (None if a keyword is not
    in the documented signature)."""
    order = DOCUMENTED_ORDER.get(fn_name)
    if order is None or any(k not in order for k in kw):
        return None
    last = max([order.index(k) for k in kw], default=-1)
    return [kw.get(name, _DOC_DEFAULTS[name]) for name in order[:last + 1]]


def by_position(case):
    """Deterministic per case (a replay takes the same route): about every third call passes its options by position."""
    import zlib
    return zlib.crc32(repr((case.get('fn'), sorted(case.get('kw', {}).items(), key=repr))).encode('utf-8', 'replace')) % 3 == 0


def lazily(case):
    """About every fifth multi-part content is handed over as a one-shot iterator instead of a list."""
    import zlib
    c = case.get('content')
    return isinstance(c, list) and case.get('fn', 'make') != 'make_sequence' and \
        zlib.crc32(repr(core.enc(c)).encode('utf-8', 'replace')) % 5 == 0


def call(case, positional=False):
    """Executes one encode-type case against the real public function; with `positional` the options are passed by
    position in the documented order (what arrives at the encoder is compared by check_forwarding)."""
    import segno
    fn = getattr(segno, case.get('fn', 'make'))
    content = case['content']
    if lazily(case):
        content = (part for part in case['content'])      # "tuple, list or any iterable" (encoder.prepare_data)
    try:
        if positional:
            args = positional_args(case.get('fn', 'make'), case.get('kw', {}))
            if args is not None:
                return fn(content, *args), None
        return fn(content, **case.get('kw', {})), None
    except Exception as ex:  # noqa: BLE001  the class is what the monitors look at
        return None, ex


def run_encode_cases(cases, rec, props, after=None, reach=True):
    """Runs `cases` under the encode boundary monitor with the oracles of `props`."""
    monitors.install(rec, props)
    if reach:
        monitors.start_reach()
    for case in cases:
        rec.case = case
        if case.get('pre'):
            # a call made just before in the same process (state keyed by a part of the arguments must not leak)
            call(case['pre'])
        monitors.State.last = None
        monitors.State.seq_last = None
        rec.count('evaluations')
        positional = by_position(case)
        if positional:
            rec.count('calls_with_positional_options')
        if lazily(case):
            rec.count('multi_part_contents_as_one_shot_iterator')
        q, ex = call(case, positional)
        if ex is None:
            rec.count('accepted')
            check_forwarding(case, rec, sorted(props)[0] if props else 'C14')
        else:
            rec.count('refused:%s' % type(ex).__name__)
        if after is not None:
            after(case, q, ex, rec)
        if q is not None:
            rec.sample({'call': core.short(core.enc(case), 200), 'result': getattr(q, 'designator', None) and
                        '%s mask %s mode %s' % (q.designator, q.mask, q.mode)})
    if reach:
        monitors.stop_reach(rec)
    rec.case = None


def mk(content, fn='make', tag=None, **kw):
    c = {'fn': fn, 'content': content, 'kw': kw}
    if tag:
        c['tag'] = tag
    return c


def random_cases(rng, n, heavy=False, multi=0.15):
    out = []
    for _ in range(n):
        if rng.random() < multi:
            content = gen.rnd_parts(rng)
            cls = 'multi'
        else:
            cls, content = gen.rnd_content(rng)
        r = rng.random()
        kw = {} if r < 0.4 else gen.rnd_options(rng, heavy)
        fn = 'make'
        r = rng.random()
        if r < 0.1 and 'micro' not in kw:
            fn = 'make_qr'
        elif r < 0.2 and 'micro' not in kw:
            fn = 'make_micro'
        if fn == 'make_micro':
            kw.pop('eci', None)
        out.append(mk(content, fn=fn, tag=cls, **kw))
    return out


def big_int_cases(rng, tier):
    """Integer content with hundreds to thousands of digits, zero runs at every place a chunked conversion could cut
    (600, 1000, 4000 digits from the end ...). Above 4300 digits Python's own int -> str limit makes the library refuse
    (ValueError) - unless it converts by itself, and then the digits have to be all there."""
    vals = [10 ** 600, 10 ** 600 + 5, 10 ** 599, 31415926535 * 10 ** 1200 + 2718281828, 10 ** 1200 - 1, 10 ** 1000 + 10 ** 500,
            7 * 10 ** 2000 + 3, 10 ** 4299, 10 ** 4299 + 9, 10 ** 4300, 10 ** 4999 + 7, 3 * 10 ** 4000 + 1, 10 ** 7088, 10 ** 7088 + 123,
            10 ** 7089, -(10 ** 1500) - 1, -(10 ** 5000)]
    for _ in range(6 if tier == 'quick' else 60):
        n = rng.randint(300, 4200)
        digits = [str(rng.randint(1, 9))] + [rng.choice('0000123456789') for _ in range(n - 1)]
        for cut in (600, 1000, 2000, 4000):
            if cut + 3 < n and rng.random() < 0.6:
                for j in range(rng.randint(1, 4)):
                    digits[n - cut + j if n - cut + j < n else n - 1] = '0'
        vals.append(int(''.join(digits)))
    out = []
    for v in vals:
        out.append(mk(v, tag='big-int', error='L', micro=False))
        if rng.random() < 0.4:
            out.append(mk(v, tag='big-int'))
    return out


def eci_boundary_cases(rng, tier, versions=None):
    """Byte content with eci=True in every spelling class of the encoding name (canonical, other letter case, alias,
    default and non-default codec), at and just below the capacity of the version - requested and automatic. The 12
    bits of the ECI header decide whether the content fits, and they must be counted for exactly those spellings for
    which they are written."""
    from vmon import gen, oracle
    out = []
    versions = versions or ([1, 2, 9, 10] if tier == 'quick' else [1, 2, 3, 5, 9, 10, 26, 27, 40])
    spellings = ['utf-8', 'UTF-8', 'utf8', 'iso-8859-1', 'ISO-8859-1', 'Iso-8859-1', 'latin1', 'Latin-1', 'LATIN1', 'L1',
                 'cp1252', 'CP1252', 'shift_jis', 'Shift_JIS', 'sjis', 'ascii', 'US-ASCII', None]
    for v in versions:
        for lv in oracle.LEVELS:
            n = gen.max_chars(v, lv, 'byte')
            if not n:
                continue
            for enc in (spellings if tier == 'thorough' else rng.sample(spellings, 9)):
                for k in (n, n - 1, n - 2, n - 3):
                    if k < 1:
                        continue
                    content = gen.content_for_bits('byte', k)
                    kw = {'eci': True, 'error': lv, 'boost_error': False, 'micro': False}
                    if enc:
                        kw['encoding'] = enc
                    out.append(mk(content, tag='eci-boundary', **dict(kw, version=v)))
                    if rng.random() < 0.5:
                        out.append(mk(content, tag='eci-boundary', **kw))
    return out


def suite_under_monitors(props, rec):
    """Runs the repository's test-suite with the encode monitor installed and merges what the monitor saw
    into `rec` (used by main_phase of the encode-side checks, thorough tier)."""
    import json
    import os
    import subprocess
    import sys
    import tempfile
    os.makedirs(core.WORK, exist_ok=True)
    fd, out = tempfile.mkstemp(prefix='suite-', suffix='.json', dir=core.WORK)
    os.close(fd)
    env = core.child_env()
    env['VMON_OUT'] = out
    env['VMON_PROPS'] = ','.join(sorted(props))
    p = subprocess.run([sys.executable, '-m', 'pytest', '-p', 'vmon.pytest_plugin', '-p', 'no:cacheprovider', '-q', '-x',
                        '--no-header', 'tests'], cwd=core.REPO, env=env, capture_output=True, text=True, timeout=3600)
    tail = (p.stdout.strip().splitlines() or [''])[-1]
    rec.extra['repository_suite_under_monitors'] = tail[:120]
    try:
        with open(out) as f:
            d = json.load(f)
    finally:
        try:
            os.remove(out)
        except OSError:
            pass
    rec.counters.update({('suite:' + k if not k.startswith(('mode:', 'evaluations')) else k): v for k, v in d['counters'].items()})
    rec.deviations.extend(d['deviations'])
    rec.dev_counts.update(d['dev_counts'])
    rec.distinct.update(d['distinct'])
    if ' passed' not in tail or ' failed' in tail:
        rec.extra.setdefault('problems_suite', []).append('repository suite did not pass under the monitors: %s' % tail[:200])


PUBLIC_DEFAULTS = {'error': None, 'version': None, 'mode': None, 'mask': None, 'encoding': None, 'eci': False, 'boost_error': True}


def check_forwarding(case, rec, prop):
    """The contract sits on encoder.encode, i.e. behind the public factories: what the user passed to make / make_qr /
    make_micro / make_sequence must be what the encoder was given (a wrapper that drops or swaps a keyword would
    otherwise be judged against the wrong request)."""
    fn = case.get('fn', 'make')
    kw = case.get('kw', {})
    if fn == 'make_sequence':
        seen = monitors.State.seq_last[0] if monitors.State.seq_last else None
        want = dict(PUBLIC_DEFAULTS, symbol_count=None)
        want.pop('eci')
    else:
        seen = monitors.State.last[0] if monitors.State.last else None
        want = dict(PUBLIC_DEFAULTS)
        want['micro'] = {'make': None, 'make_qr': False, 'make_micro': True}[fn]
    if seen is None:
        return
    want.update(kw)
    bad = {k: (seen.get(k), v) for k, v in want.items() if k in seen and not (seen.get(k) is v or seen.get(k) == v)}
    rec.count('public_arguments_compared')
    if bad or (not lazily(case) and seen.get('content') is not case['content'] and seen.get('content') != case['content']):
        rec.deviation(prop, 'public-argument-not-forwarded', {'function': fn, 'encoder_got_vs_user_passed': bad})


def earlier_saves(q, case, rec):
    """The same QRCode object is serialised before, with other options and into other formats (about every third case,
    decided by the case seed): what was written earlier must not colour the output that is checked."""
    import io as _io
    if case.get('seed', 0) % 3:
        return
    rec.count('cases_after_earlier_saves_of_the_same_object')
    for kind, kw in (('svg', {'dark': 'darkred', 'light': 'yellow', 'scale': 3, 'border': 1, 'finder_dark': 'blue'}),
                     ('png', {'dark': '#00ff0080', 'light': None, 'scale': 2, 'data_dark': 'navy'}),
                     ('ppm', {'dark': 'green', 'light': 'pink', 'border': 0}), ('txt', {'border': 7}), ('pdf', {'scale': 0.5, 'dark': 'grey'})):
        try:
            q.save(_io.StringIO() if kind == 'txt' else _io.BytesIO(), kind=kind, **kw)
        except Exception:  # noqa: BLE001   (not the output under test)
            pass
    list(q.matrix_iter(scale=2, border=3))
    it = q.matrix_iter(verbose=True)
    next(it)            # an iterator that is abandoned half way
