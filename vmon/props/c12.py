"""C12 - all output routes give the same document for the same symbol and options."""
import base64
import contextlib
import gzip
import hashlib
import io
import os
import random
import re
import shutil
import subprocess
import sys
import tempfile
import urllib.parse

from vmon import core, gen, monitors, oracle
from vmon.props import common

PROPERTY = 'C12'
RULE = ('option sets x 13 output kinds x every applicable route: file name (lower / upper / mixed case extension), binary or '
        'text stream with kind=, stream with a name attribute, .svgz path and kind="svgz" stream (gunzipped), png_data_uri '
        '(base64), svg_data_uri (percent-decoded, the one documented quote substitution undone), svg_inline, segno.cli.main '
        'in-process with flags derived by an independent flag table, python -m segno.cli in a subprocess (sample); an offline '
        'checker groups the recorded (symbol, kind, options, route, sha256) log and requires all members of a group to be '
        'byte-identical after blanking the EPS/PDF/LaTeX creation timestamps; CLI without -o vs QRCode.terminal; sequence '
        'save -> exactly name-NN-MM.ext files equal to the individual outputs (open() audit hook records the files '
        'written); unknown extensions -> ValueError; distinct = (kind, route, option signature)')
ASSUMPTIONS = ['base64, gzip, urllib.parse, hashlib of CPython', 'routes are compared with each other, not with a stored expectation',
               'svg_data_uri: attribute values and titles containing quote characters are not generated (the URI-specific quote '
               'substitution is not invertible for them; observation recorded in DESIGN.md)']
REQUIRED = ['evaluations', 'route_groups_checked', 'route:path', 'route:path-upper', 'route:stream-kind', 'route:stream-name',
            'route:svgz-path', 'route:svgz-kind', 'route:svgz-kind-named-stream', 'route:stream-name-and-kind', 'route:png-data-uri', 'route:svg-data-uri', 'route:svg-inline', 'route:cli-main', 'route:cli-main-upper',
            'route:cli-subprocess', 'cli_terminal_checked', 'cli_terminal_other_stdout_encoding', 'cli_content_with_trailing_white_space', 'sequence_terminal_checked', 'route:cli-main-svgz', 'sequence_saves_checked', 'sequence_cli_checked', 'unknown_extension_refused',
            'audit_open_events']
TIMEOUT = {'quick': 3600, 'thorough': 21600}
KINDS = ['png', 'svg', 'eps', 'pdf', 'txt', 'ans', 'pbm', 'pam', 'ppm', 'xbm', 'xpm', 'tex']
TEXT = ('eps', 'xpm', 'xbm', 'txt', 'tex', 'ans')
COLORS = ['red', 'navy', '#abc', '#123456', 'gold', 'white', 'black', '#0f0', 'steelblue']
TYPE_KEYS = ['finder_dark', 'finder_light', 'data_dark', 'data_light', 'version_dark', 'version_light', 'format_dark',
             'format_light', 'alignment_dark', 'alignment_light', 'timing_dark', 'timing_light', 'separator', 'dark_module',
             'quiet_zone']

# independent table: serializer keyword -> command line flag
FLAG = {'scale': '--scale', 'border': '--border', 'dark': '--dark', 'light': '--light', 'title': '--title', 'desc': '--desc',
        'svgid': '--svgid', 'svgclass': '--svgclass', 'lineclass': '--lineclass', 'unit': '--unit',
        'svgversion': '--svgversion', 'encoding': '--svgencoding', 'dpi': '--dpi',
        'alignment_dark': '--align-dark', 'alignment_light': '--align-light'}
for _k in TYPE_KEYS:
    FLAG.setdefault(_k, '--' + _k.replace('_', '-'))
BOOL_FLAG = {('xmldecl', False): '--no-xmldecl', ('svgns', False): '--no-namespace', ('nl', False): '--no-newline',
             ('omitsize', True): '--no-size', ('draw_transparent', True): '--draw-transparent'}


def gen_cases(tier, seed):
    rng = random.Random(seed * 217645199 + 12)
    n = 420 if tier == 'quick' else 25000
    cases = []
    for i in range(n):
        kind = KINDS[i % len(KINDS)] if rng.random() < 0.7 else rng.choice(['png', 'svg'])
        kw = {}
        if kind not in ('txt', 'ans') and rng.random() < 0.6:
            kw['scale'] = rng.choice([1, 2, 3, 5] if kind not in ('svg', 'eps', 'pdf', 'tex') else [1, 2, 2.5, 0.5, 4])
        if rng.random() < 0.6:
            kw['border'] = rng.choice([0, 1, 2, 4, 6])
        if kind in ('png', 'svg', 'eps', 'pdf', 'pam', 'ppm', 'xpm'):
            if rng.random() < 0.6:
                kw['dark'] = rng.choice(COLORS)
            if rng.random() < 0.5:
                kw['light'] = rng.choice(COLORS + ([None] if kind in ('png', 'svg', 'eps', 'pdf', 'pam', 'xpm') else []))
        if kind in ('png', 'svg') and rng.random() < 0.3:
            kw['dark'] = rng.choice(['#12345680', '#abcd', '#0000ffcc', (10, 20, 30, 128)])
            kw['light'] = rng.choice([None, None, '#ffffff80', 'white'])
            if rng.random() < 0.5:
                kw['finder_dark'] = rng.choice(['black', 'red', None])
        if kind == 'txt' and rng.random() < 0.4:
            kw['dark'], kw['light'] = rng.choice([('X', '_'), ('#', '.'), ('A', 'B')])
        if kind == 'tex':
            if rng.random() < 0.4:
                kw['dark'] = rng.choice(['red', 'blue', 'black'])
            if rng.random() < 0.4:
                kw['unit'] = rng.choice(['mm', 'pt', 'cm'])
        if kind in ('png', 'svg', 'ppm') and rng.random() < 0.35:
            for k in rng.sample(TYPE_KEYS, rng.randint(1, 4)):
                kw[k] = rng.choice(COLORS)
        if kind == 'png':
            if rng.random() < 0.25:
                kw['dpi'] = rng.choice([72, 150, 300])
            if rng.random() < 0.25:
                kw['compresslevel'] = rng.randint(0, 9)
        if kind == 'pdf' and rng.random() < 0.3:
            kw['compresslevel'] = rng.randint(0, 9)
        if kind == 'svg':
            for opt, val in (('xmldecl', False), ('svgns', False), ('nl', False), ('omitsize', True), ('draw_transparent', True)):
                if rng.random() < 0.2:
                    kw[opt] = val
            if 'omitsize' not in kw and rng.random() < 0.2:
                kw['unit'] = rng.choice(['mm', 'cm', 'px'])
            if rng.random() < 0.25:
                kw['title'] = rng.choice(['@title', 'QR code', 'a <b> & c', 'Tïtle ☃', 'x > y', 'Café Müller', 'ñandú'])
            if rng.random() < 0.2:
                kw['desc'] = rng.choice(['desc', 'x & y < z'])
            if rng.random() < 0.2:
                kw['svgid'] = rng.choice(['qr1', 'the-id'])
            if rng.random() < 0.1:
                kw['svgclass'] = None
                kw['lineclass'] = None
            elif rng.random() < 0.2:
                kw['svgclass'] = rng.choice(['cls', 'a b'])
            if 'lineclass' not in kw and rng.random() < 0.2:
                kw['lineclass'] = rng.choice(['line', 'x y'])
            if rng.random() < 0.15:
                kw['svgversion'] = rng.choice([1.1, 2.0])
            if rng.random() < 0.25:
                kw['encoding'] = rng.choice(['utf-8', 'iso-8859-1', 'iso-8859-1', 'cp1252']) if 'title' not in kw or '☃' not in kw['title'] else 'utf-8'
            if rng.random() < 0.15:
                kw['compresslevel_svgz'] = rng.randint(1, 9)
        content = gen.content_for_bits(rng.choice(['numeric', 'alphanumeric', 'byte']), rng.randint(1, 40))
        mk = {'micro': False}
        if rng.random() < 0.5:
            mk['error'] = rng.choice(['L', 'M', 'Q', 'H'])
        if rng.random() < 0.3:
            mk['version'] = rng.choice([1, 2, 5, 7, 10])
            if mk['version'] <= 2:
                content = content[:7]
        r = rng.random()
        if r < 0.2:
            mk = {'micro': True}
            content = content[:4] if not content.isdigit() else content[:10]
        elif r < 0.36:
            # Micro QR through the other spellings: a Micro version name in either letter case with or without
            # --micro (the version alone has to allow Micro symbols), an explicit error level with --micro
            content = content[:3] if not content.isdigit() else content[:5]
            mk = {}
            if rng.random() < 0.5:
                mk['micro'] = True
            lv = rng.choice([None, 'L', 'M', 'l', 'm', 'L'])
            if not mk or rng.random() < 0.6:
                lower = content != content.upper()     # lower-case letters: byte mode, M3 and M4 only
                mk['version'] = rng.choice(['M3', 'M4', 'm3', 'm4'] if lower else
                                           ['M2', 'M3', 'M4', 'm2', 'm3', 'm4'] if lv or not content.isdigit() else
                                           ['M1', 'm1', 'M2', 'm3', 'M4', 'm4'])
            if lv:
                mk['error'] = lv
        elif r < 0.42:
            mk['error'] = rng.choice(['l', 'm', 'q', 'h'])
        if 'error' not in mk and rng.random() < 0.15:
            mk['error_dash'] = True       # CLI spelling of "no error level given"
        if mk.get('micro') is False and rng.random() < 0.15:
            mk['explicit_no_micro'] = True
        # symbol options that the command line has to hand over as well (every mask value incl. 0)
        if rng.random() < 0.5:
            mk['mask'] = rng.randint(0, 3 if mk.get('micro') or str(mk.get('version', '')).upper().startswith('M') else 7)
        if rng.random() < 0.2:
            mk['boost_error'] = False
        if rng.random() < 0.15 and not mk.get('micro') and not str(mk.get('version', '')).upper().startswith('M'):
            mk['mode'] = rng.choice(['byte', 'BYTE', 'Byte'])
        elif rng.random() < 0.1 and content.isdigit():
            # (M1 is numeric only: alphanumeric there is an excluded combination, not a route question)
            mk['mode'] = rng.choice(['numeric', 'NUMERIC', 'Numeric'] + ([] if str(mk.get('version', '')).upper() == 'M1' else ['alphanumeric', 'ALPHANUMERIC']))
        if rng.random() < 0.15:
            mk['encoding'] = rng.choice(['utf-8', 'latin1'])
        split = False
        if mk.get('micro') is False and set(mk) <= {'micro', 'error', 'mask', 'boost_error', 'explicit_no_micro', 'error_dash'}:
            r = rng.random()
            if r < 0.15:
                # white space at the end of the content is content (the command line hands it over untouched)
                content += rng.choice(['\n', '\r\n', '\r', ' ', '\t', '\n\n', ' \n'])
            elif r < 0.22:
                # content that starts like something a command line parser might want to interpret
                content = rng.choice(['@', '@segno', '@/etc/hostname ', '%', '~', '$HOME ', '*', '\\', '\ufeff', '\u200b', '\xa0']) + content
            elif r < 0.37 and ' ' in content.strip() and '  ' not in content and not any(w.startswith('-') for w in content.split(' ')):
                split = True      # several content arguments are joined with one blank
        cases.append({'kind': 'routes', 'out': kind, 'content': content, 'make': mk, 'kw': kw, 'split_args': split,
                      'subprocess': rng.random() < (0.12 if tier == 'quick' else 0.05)})
    # always: SVG documents in a single-byte encoding with non-ASCII title / description - every route, incl. the data URI
    # whose percent-encoded payload has to be these bytes
    for j, (enc, title, desc) in enumerate([('iso-8859-1', 'Café Müller', 'ñandú'), ('cp1252', 'Grüße €', None), ('iso-8859-15', 'prix: 5 €', 'é'),
                                            ('utf-8', 'Tïtle ☃', 'x > y'), ('iso-8859-1', 'a <b> & ü', 'ä"ö\'ü'), ('utf-16', 'Ünï', None)]):
        kw = {'title': title, 'encoding': enc}
        if desc:
            kw['desc'] = desc
        if j % 2:
            kw['xmldecl'] = False
        cases.append({'kind': 'routes', 'out': 'svg', 'content': gen.content_for_bits('alphanumeric', 9 + j), 'make': {'micro': False}, 'kw': kw,
                      'split_args': False, 'subprocess': j == 0})
    # always: content that begins or ends with something a command line front end might want to interpret or tidy up
    for j, fix in enumerate(['@', '@segno', '%', '~', '*', '\\', '\ufeff', '\u200b', '\xa0', ' ', '\t', '-', '--', '+', '#', '"', "'"]):
        for where in ('prefix', 'suffix'):
            body = gen.content_for_bits('alphanumeric', 6 + j % 5)
            content = fix + body if where == 'prefix' else body + fix
            if content.startswith('-'):
                continue      # would be an option for any argparse program: given after `--` by convention, not this route
            cases.append({'kind': 'routes', 'out': ['txt', 'png', 'svg', 'pbm'][j % 4], 'content': content, 'make': {'micro': False}, 'kw': {},
                          'split_args': False, 'subprocess': j % 6 == 0})
    for i in range(40 if tier == 'quick' else 400):
        micro = rng.random() < 0.3
        cases.append({'kind': 'terminal', 'content': gen.content_for_bits('alphanumeric', rng.randint(1, 8 if micro else 30)),
                      'border': rng.choice([None, 0, 1, 3]), 'compact': rng.random() < 0.5, 'micro': micro,
                      'subprocess': i % 5 == 0})
    # always: every stdout encoding of run_terminal (chosen by the content length mod 6) with and without --compact
    for n_ in range(6, 20):
        for compact in (True, False):
            cases.append({'kind': 'terminal', 'content': gen.content_for_bits('alphanumeric', n_), 'border': rng.choice([None, 1]),
                          'compact': compact, 'micro': False, 'subprocess': True})
    names = ['.svg', '..txt', '.hidden.png', 'seq.png', 'out.svg', 'a.b.c.txt', 'UPPER.PNG', 's{0}q.png', 'brace{x}.svg', 'ünï.txt', 'sp ace.pbm', 'x.Svg', '{}.eps',
             'percent%s.xbm', 'trail.dot.pdf']
    for i in range(45 if tier == 'quick' else 450):
        cases.append({'kind': 'sequence', 'name': names[i % len(names)], 'count': rng.randint(2, 5),
                      'content': gen.content_for_bits('byte', rng.randint(20, 60)),
                      'kw': {'scale': rng.choice([1, 2])} if (i % 2 and not names[i % len(names)].lower().endswith('.txt')) else {}})
    for ext in ('bmp', 'jpg', 'gif', 'svgx', '', 'png2', 'tiff'):
        cases.append({'kind': 'unknown-ext', 'ext': ext})
    rng.shuffle(cases)
    return cases


_STAMPS = [(re.compile(rb'(%%CreationDate: )[0-9: -]{19}'), rb'\1' + b'X' * 19),
           (re.compile(rb"(/CreationDate\(D:)[0-9+\-']{21}"), rb'\1' + b'X' * 21),
           (re.compile(rb'(% Date:     )[0-9T:-]{19}'), rb'\1' + b'X' * 19)]


def blank_stamps(data):
    for rx, rep in _STAMPS:
        data = rx.sub(rep, data)
    return data


def as_bytes(x):
    return x if isinstance(x, bytes) else x.encode('utf-8')


class NamedBytesIO(io.BytesIO):
    def __init__(self, name):
        super().__init__()
        self.name = name


class NamedStringIO(io.StringIO):
    def __init__(self, name):
        super().__init__()
        self.name = name


def cli_flags(kind, kw):
    """serializer keywords -> argv (independent flag table). Returns None if not expressible."""
    argv = []
    if kind == 'svg' and kw.get('svgclass', 0) is None and kw.get('lineclass', 0) is None:
        kw = {k: v for k, v in kw.items() if k not in ('svgclass', 'lineclass')}
        argv.append('--no-classes')
    for k, v in kw.items():
        if k in ('compresslevel', 'compresslevel_svgz'):
            return None
        if (k, v) in BOOL_FLAG:
            argv.append(BOOL_FLAG[(k, v)])
        elif k in FLAG:
            if v is None:
                if k in ('dark', 'light') or k in TYPE_KEYS:
                    argv.append('%s=transparent' % FLAG[k])
                else:
                    return None
            elif isinstance(v, tuple):
                return None
            else:
                argv.append('%s=%s' % (FLAG[k], v))
        else:
            return None
    return argv


def make_flags(mk, content):
    """keyword arguments of segno.make -> command line flags (independent table)."""
    argv = []
    if mk.get('micro'):
        argv.append('--micro')
    elif mk.get('explicit_no_micro'):
        argv.append('--no-micro')
    if mk.get('error'):
        argv.append('--error=%s' % mk['error'])
    elif mk.get('error_dash'):
        argv.append('--error=-')
    if mk.get('version'):
        argv.append('--version=%s' % mk['version'])
    if mk.get('mask') is not None:
        argv.append('--pattern=%d' % mk['mask'])
    if mk.get('mode'):
        argv.append('--mode=%s' % mk['mode'])
    if mk.get('boost_error') is False:
        argv.append('--no-error-boost')
    if mk.get('encoding'):
        argv.append('--encoding=%s' % mk['encoding'])
    return argv


def rng_name(i):
    return ['n.svgz', 'n.svg', 'n.bin', 'noext'][i % 4]


def run_routes(case, rec, tmp, opened):
    import segno
    from segno import cli
    kind, kw = case['out'], dict(case['kw'])
    svgz_level = kw.pop('compresslevel_svgz', None)
    q = segno.make(case['content'], **{k: v for k, v in case['make'].items() if k not in ('error_dash', 'explicit_no_micro')})
    text = kind in TEXT
    res = {}

    def read(path):
        with open(path, 'rb') as f:
            return f.read()
    # canonical: stream with kind=
    out = io.StringIO() if text else io.BytesIO()
    q.save(out, kind=kind, **kw)
    res['stream-kind'] = as_bytes(out.getvalue())
    out = io.StringIO() if text else io.BytesIO()
    q.save(out, kind=kind.upper(), **kw)
    res['stream-kind-upper'] = as_bytes(out.getvalue())
    p = os.path.join(tmp, 'r1.%s' % kind)
    q.save(p, **kw)
    res['path'] = read(p)
    mixed = kind.upper() if len(opened) % 2 else kind[0].upper() + kind[1:]
    p = os.path.join(tmp, 'r2.%s' % mixed)
    q.save(p, **kw)
    res['path-upper'] = read(p)
    out = NamedStringIO('n.%s' % kind) if text else NamedBytesIO('n.%s' % mixed)
    q.save(out, **kw)
    res['stream-name'] = as_bytes(out.getvalue())
    # a stream that has a name *and* an explicit kind: the kind decides (the name may say anything)
    other = 'n.dat' if len(opened) % 3 else ('n.%s' % ('txt' if kind != 'txt' else 'png'))
    out = NamedStringIO(other) if text else NamedBytesIO(other)
    q.save(out, kind=kind if len(opened) % 2 else kind.upper(), **kw)
    res['stream-name-and-kind'] = as_bytes(out.getvalue())
    if kind == 'svg':
        skw = dict(kw)
        if svgz_level is not None:
            skw['compresslevel'] = svgz_level
        out = NamedBytesIO(rng_name(len(opened)))
        q.save(out, kind='svgz' if len(opened) % 2 else 'SVGZ', **skw)
        res['svgz-kind-named-stream'] = gzip.decompress(out.getvalue())
        p = os.path.join(tmp, 'r5.svgz')
        q.save(p, **skw)
        res['svgz-path'] = gzip.decompress(read(p))
        out = io.BytesIO()
        q.save(out, kind='svgz', **skw)
        res['svgz-kind'] = gzip.decompress(out.getvalue())
        # svg_inline == stream with xmldecl / svgns / nl off
        ikw = {k: v for k, v in kw.items() if k not in ('xmldecl', 'svgns', 'nl')}
        out = io.BytesIO()
        q.save(out, kind='svg', xmldecl=False, svgns=False, nl=False, **ikw)
        inline = q.svg_inline(**ikw)
        res_inline = inline.encode(ikw.get('encoding', 'utf-8'))
        rec.count('route:svg-inline')
        if res_inline != out.getvalue():
            rec.deviation('C12', 'route-differs', {'kind': kind, 'route': 'svg-inline', 'kw': ikw, 'len': (len(res_inline), len(out.getvalue()))})
        # data URI: its own defaults are xmldecl=False, nl=False
        dkw = dict(kw)
        dkw.setdefault('xmldecl', False)
        dkw.setdefault('nl', False)
        out = io.BytesIO()
        q.save(out, kind='svg', **dkw)
        # the two URI-only options change the envelope, never the document
        variant = len(opened) % 4
        ukw = dict(kw)
        if variant & 1:
            ukw['encode_minimal'] = True
        if variant & 2:
            ukw['omit_charset'] = True
        uri = q.svg_data_uri(**ukw)
        head, _, payload = uri.partition(',')
        enc = kw.get('encoding', 'utf-8')
        if head != ('data:image/svg+xml' if variant & 2 else 'data:image/svg+xml;charset=%s' % enc):
            rec.deviation('C12', 'data-uri-header', {'head': head, 'options': {k: ukw[k] for k in ukw if k in ('encode_minimal', 'omit_charset')}})
        rec.count('svg_data_uri_variant:%d' % variant)
        doc = urllib.parse.unquote_to_bytes(payload)
        doc = re.sub(rb"(=)'([^']+)'", rb'\1"\2"', doc)   # undo the URI-specific quote substitution
        rec.count('route:svg-data-uri')
        if doc != out.getvalue():
            rec.deviation('C12', 'route-differs', {'kind': kind, 'route': 'svg-data-uri', 'kw': kw, 'len': (len(doc), len(out.getvalue())),
                                                   'a': doc[:120], 'b': out.getvalue()[:120]})
    if kind == 'png':
        uri = q.png_data_uri(**kw)
        if not uri.startswith('data:image/png;base64,'):
            rec.deviation('C12', 'data-uri-header', {'head': uri[:30]})
        res['png-data-uri'] = base64.b64decode(uri.split(',', 1)[1], validate=True)
    # command line, in process
    flags = cli_flags(kind, kw)
    if flags is not None:
        p = os.path.join(tmp, 'r10.%s' % kind)
        argv = ['--output=%s' % p] + make_flags(case['make'], case['content']) + flags + \
            (case['content'].split(' ') if case.get('split_args') and case['content'] == case['content'].strip() else [case['content']])
        if case.get('split_args'):
            rec.count('cli_content_in_several_arguments')
        if case['content'] != case['content'].rstrip():
            rec.count('cli_content_with_trailing_white_space')
        try:
            rc = cli.main(argv)
        except SystemExit as ex:
            rc = ex.code
        if rc != 0:
            rec.deviation('C12', 'cli-main-failed', {'argv': argv, 'rc': rc})
        else:
            res['cli-main'] = read(p)
        # the same through an output name with an upper / mixed case extension
        p = os.path.join(tmp, 'R10B.%s' % mixed)
        argv_u = ['--output=%s' % p] + argv[1:]
        try:
            rc = cli.main(argv_u)
        except SystemExit as ex:
            rc = ex.code
        if rc != 0:
            rec.deviation('C12', 'cli-main-failed', {'argv': argv_u, 'rc': rc})
        else:
            res['cli-main-upper'] = read(p)
        if kind == 'svg' and svgz_level is None:
            # the command line tool asked for name.svgz: the gunzipped file is the SVG document
            p = os.path.join(tmp, 'r12.%s' % ('svgz' if len(opened) % 2 else 'SVGZ'))
            argv_z = ['--output=%s' % p] + argv[1:]
            try:
                rc = cli.main(argv_z)
            except SystemExit as ex:
                rc = ex.code
            if rc != 0:
                rec.deviation('C12', 'cli-main-failed', {'argv': argv_z, 'rc': rc})
            else:
                try:
                    res['cli-main-svgz'] = gzip.decompress(read(p))
                except OSError as ex:
                    rec.deviation('C12', 'cli-svgz-not-gzip', {'argv': argv_z, 'error': str(ex)[:100]})
        if case.get('subprocess'):
            p2 = os.path.join(tmp, 'r11.%s' % kind)
            argv2 = ['--output=%s' % p2] + argv[1:]
            pr = core.run_sub([sys.executable, '-m', 'segno.cli'] + argv2, capture_output=True, env=core.child_env())
            if pr.returncode is None:
                pass
            elif pr.returncode != 0:
                rec.deviation('C12', 'cli-subprocess-failed', {'argv': argv2, 'rc': pr.returncode, 'stderr': pr.stderr[-200:]})
            else:
                res['cli-subprocess'] = read(p2)
    # offline comparison of the group
    canon = blank_stamps(res['stream-kind'])
    digest = hashlib.sha256(canon).hexdigest()
    rec.count('route_groups_checked')
    for route, data in res.items():
        rec.count('route:%s' % route)
        rec.seen('%s|%s|%s' % (kind, route, ','.join(sorted(kw))))
        d = blank_stamps(data)
        if d != canon:
            off = next((i for i, (a, b) in enumerate(zip(d, canon)) if a != b), min(len(d), len(canon)))
            rec.deviation('C12', 'route-differs', {'kind': kind, 'route': route, 'kw': kw, 'len': (len(d), len(canon)),
                                                   'first_difference_at': off, 'a': d[max(0, off - 20):off + 40],
                                                   'b': canon[max(0, off - 20):off + 40]})
    rec.sample({'kind': kind, 'kw': core.short(kw, 150), 'routes': sorted(res), 'sha256': digest[:16], 'bytes': len(canon)})


def run_terminal(case, rec, tmp):
    import segno
    from segno import cli
    q = segno.make(case['content'], micro=case['micro'])
    exp = io.StringIO()
    q.terminal(out=exp, border=case['border'], compact=case['compact'])
    argv = (['--micro'] if case['micro'] else []) + (['--compact'] if case['compact'] else [])
    if case['border'] is not None:
        argv.append('--border=%d' % case['border'])
    argv.append(case['content'])
    got = io.StringIO()
    with contextlib.redirect_stdout(got):
        try:
            rc = cli.main(list(argv))
        except SystemExit as ex:
            rc = ex.code
    rec.count('cli_terminal_checked')
    if rc != 0 or got.getvalue() != exp.getvalue():
        rec.deviation('C12', 'cli-terminal-differs', {'argv': argv, 'rc': rc, 'len': (len(got.getvalue()), len(exp.getvalue()))})
    if case.get('subprocess'):
        pr = core.run_sub([sys.executable, '-m', 'segno.cli'] + argv, capture_output=True, env=dict(core.child_env(), PYTHONIOENCODING='utf-8'))
        rec.count('cli_terminal_subprocess')
        if pr.returncode is not None and (pr.returncode != 0 or pr.stdout.decode('utf-8') != exp.getvalue()):
            rec.deviation('C12', 'cli-terminal-differs', {'argv': argv, 'rc': pr.returncode, 'subprocess': True})
        # the same pair under another encoding / error handler of the standard output: whatever QRCode.terminal prints
        # to that stdout, the command line tool prints the same bytes
        ioenc = ['ascii:backslashreplace', 'latin-1:replace', 'cp437', 'utf-16', 'ascii:xmlcharrefreplace', 'cp1252:ignore'][len(case['content']) % 6]
        env = dict(core.child_env(), PYTHONIOENCODING=ioenc)
        # ... and with the environment variables terminal programs like to look at (the output is the same whatever they say)
        env.update([{}, {'NO_COLOR': '1'}, {'TERM': 'dumb'}, {'CLICOLOR': '0', 'NO_COLOR': 'true'}, {'FORCE_COLOR': '1'}, {'COLORTERM': 'truecolor', 'TERM': 'xterm-256color'},
                    {'LANG': 'C', 'LC_ALL': 'C'}][(len(case['content']) + int(bool(case['compact']))) % 7])
        prog = ('import segno; segno.make(%r, micro=%r).terminal(border=%r, compact=%r)'
                % (case['content'], case['micro'], case['border'], case['compact']))
        pa = core.run_sub([sys.executable, '-c', prog], capture_output=True, env=env)
        pc = core.run_sub([sys.executable, '-m', 'segno.cli'] + argv, capture_output=True, env=env)
        if pa.returncode == 0 and pc.returncode is not None:
            rec.count('cli_terminal_other_stdout_encoding')
            if pc.returncode != 0 or pc.stdout != pa.stdout:
                rec.deviation('C12', 'cli-terminal-differs', {'argv': argv, 'rc': pc.returncode, 'subprocess': True, 'PYTHONIOENCODING': ioenc,
                                                              'env': {k: env[k] for k in ('NO_COLOR', 'TERM', 'CLICOLOR', 'FORCE_COLOR', 'COLORTERM', 'LANG') if k in env},
                                                              'len': (len(pc.stdout), len(pa.stdout))})


def run_sequence(case, rec, tmp, opened):
    import segno
    seq = segno.make_sequence(case['content'], symbol_count=case['count'])
    d = tempfile.mkdtemp(prefix='seq-', dir=tmp)
    name = case['name']
    target = os.path.join(d, name)
    before = len(opened)
    try:
        seq.save(target, **case['kw'])
    except Exception as ex:  # noqa: BLE001
        rec.deviation('C12', 'sequence-save-raised', {'name': name, 'type': type(ex).__name__, 'error': str(ex)[:120]})
        return
    rec.count('sequence_saves_checked')
    written = sorted(os.listdir(d))
    dot = name.rfind('.')
    stem, ext = name[:dot], name[dot:]
    n = len(seq)
    expected = sorted('%s-%02d-%02d%s' % (stem, n, i, ext) for i in range(1, n + 1))
    audit = sorted({os.path.basename(p) for p in opened[before:] if os.path.dirname(p) == d})
    if written != expected or audit != expected:
        rec.deviation('C12', 'sequence-file-names', {'written': written, 'expected': expected, 'opened_for_writing': audit})
        return
    kind = ext[1:].lower()
    for i, q in enumerate(seq, start=1):
        out = io.StringIO() if kind in TEXT else io.BytesIO()
        q.save(out, kind=kind, **case['kw'])
        with open(os.path.join(d, expected[i - 1] if False else '%s-%02d-%02d%s' % (stem, n, i, ext)), 'rb') as f:
            data = f.read()
        if blank_stamps(data) != blank_stamps(as_bytes(out.getvalue())):
            rec.deviation('C12', 'sequence-file-content', {'name': name, 'index': i})
    rec.seen('sequence|%s|%d' % (name, n))
    # the terminal output of a sequence is the terminal output of its symbols, one after the other - through the object and
    # through the command line tool without an output file
    for compact in (False, True):
        exp_t = io.StringIO()
        for q in seq:
            q.terminal(out=exp_t, compact=compact)
        got_t = io.StringIO()
        seq.terminal(out=got_t, compact=compact)
        rec.count('sequence_terminal_checked')
        if got_t.getvalue() != exp_t.getvalue():
            rec.deviation('C12', 'sequence-terminal-differs', {'name': name, 'compact': compact, 'len': (len(got_t.getvalue()), len(exp_t.getvalue()))})
        from segno import cli as _cli
        cli_t = io.StringIO()
        with contextlib.redirect_stdout(cli_t):
            try:
                rc = _cli.main(['--seq', '--symbol-count=%d' % case['count']] + (['--compact'] if compact else []) + [case['content']])
            except SystemExit as ex:
                rc = ex.code
        if rc != 0 or cli_t.getvalue() != exp_t.getvalue():
            rec.deviation('C12', 'cli-terminal-differs', {'sequence': True, 'compact': compact, 'rc': rc,
                                                          'len': (len(cli_t.getvalue()), len(exp_t.getvalue()))})
    # the same sequence through the command line tool: --seq --symbol-count=k -o <name>
    if not any(ch in name for ch in '{}% '):
        from segno import cli
        d2 = tempfile.mkdtemp(prefix='seqcli-', dir=tmp)
        argv = ['--seq', '--symbol-count=%d' % case['count'], '--output=%s' % os.path.join(d2, name)]
        if case['kw'].get('scale') and kind not in ('txt', 'ans'):
            argv.append('--scale=%s' % case['kw']['scale'])
        argv.append(case['content'])
        try:
            rc = cli.main(argv)
        except SystemExit as ex:
            rc = ex.code
        rec.count('sequence_cli_checked')
        if rc != 0 or sorted(os.listdir(d2)) != expected:
            rec.deviation('C12', 'sequence-cli-files', {'rc': rc, 'written': sorted(os.listdir(d2)), 'expected': expected})
        else:
            for fn_ in expected:
                with open(os.path.join(d, fn_), 'rb') as f1, open(os.path.join(d2, fn_), 'rb') as f2:
                    if blank_stamps(f1.read()) != blank_stamps(f2.read()):
                        rec.deviation('C12', 'sequence-cli-content', {'file': fn_})


def run_cases(cases, rec, tier='quick', seed='0'):
    import segno
    monitors.start_reach()
    os.makedirs(core.WORK, exist_ok=True)
    tmp = tempfile.mkdtemp(prefix='c12-', dir=core.WORK)
    opened = []

    def hook(event, args):
        if event == 'open' and args and isinstance(args[0], str) and args[1] and any(m in str(args[1]) for m in 'wax+'):
            if args[0].startswith(tmp):
                opened.append(args[0])
                rec.count('audit_open_events')
    sys.addaudithook(hook)
    try:
        for case in cases:
            rec.case = case
            rec.count('evaluations')
            k = case['kind']
            try:
                if k == 'routes':
                    run_routes(case, rec, tmp, opened)
                elif k == 'terminal':
                    run_terminal(case, rec, tmp)
                elif k == 'sequence':
                    run_sequence(case, rec, tmp, opened)
                else:
                    q = segno.make('x')
                    for target in (os.path.join(tmp, 'u.%s' % case['ext']), NamedBytesIO('u.%s' % case['ext'])):
                        try:
                            q.save(target)
                            rec.deviation('C12', 'unknown-extension-accepted', {'ext': case['ext']})
                        except ValueError:
                            rec.count('unknown_extension_refused')
                        except Exception as ex:  # noqa: BLE001
                            rec.deviation('C12', 'unknown-extension-exception', {'ext': case['ext'], 'type': type(ex).__name__})
            except Exception as ex:  # noqa: BLE001
                import traceback
                rec.deviation('C12', 'route-raised', {'type': type(ex).__name__, 'error': str(ex)[:200],
                                                      'where': traceback.format_exc()[-300:]})
    finally:
        shutil.rmtree(tmp, ignore_errors=True)
    monitors.stop_reach(rec)
    rec.case = None
