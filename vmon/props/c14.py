"""C14 - arguments are honoured or refused with ValueError; nothing else escapes."""
import io
import os
import random
import subprocess
import sys
import tempfile

from vmon import core, gen, monitors, oracle
from vmon.props import common

PROPERTY = 'C14'
RULE = ('argument vectors drawn from domain tables (content str/bytes/int of all classes; version, error, mode, mask, '
        'encoding, micro, eci, boost_error, symbol_count incl. every documented spelling and boundary junk of the '
        'documented types) for make, make_qr, make_micro, make_sequence: exception-class monitor (only ValueError, or '
        'LookupError for an unknown codec), excluded combinations must be refused, accepted symbols pass the C01-C03 '
        'post-condition; spelling pairs (canonical vs alternative) must give identical matrices; serialiser calls with '
        'malformed colours / scales / borders / kinds must raise ValueError; CLI subprocesses: exit 0 only with the '
        'output written, creation refusals as exit 1 + library message on stderr without traceback; distinct = '
        '(function, outcome class, which arguments were given) combinations + distinct serialiser/CLI cases')
ASSUMPTIONS = common.ASSUME_QR + [
    'domain: content str/bytes/int; option values of the documented types (floats, None for scale, non-str/tuple colours are outside)',
    'a worker that does not return within the watchdog makes the run inconclusive, not violated']
REQUIRED = ['cli_refusals_in_process', 'cli_unwritable_runs', 'evaluations', 'encode_observed', 'symbols_decoded', 'refused:ValueError', 'excluded_combination_refused',
            'spelling_pairs_equal', 'serializer_refusals', 'serializer_accepts', 'cli_runs', 'cli_refusals', 'cli_spelling_pairs']
TIMEOUT = {'quick': 3600, 'thorough': 21600}

VERSIONS = [None] * 6 + list(range(1, 41)) + [str(i) for i in range(1, 41)] + ['M1', 'M2', 'M3', 'M4', 'm1', 'm2', 'm3', 'm4'] + \
           [0, 41, -1, 100, 'M5', 'M0', '', 'abc', '0', '41', 'm', ' 1', '1.5', 'M 1']
ERRORS = [None] * 4 + ['L', 'M', 'Q', 'H', 'l', 'm', 'q', 'h', 'X', '', 'LL', 'low', '-']
MODESV = [None] * 6 + oracle.MODES + ['Numeric', 'ALPHANUMERIC', 'Byte', 'KANJI', 'Hanzi', 'foo', '', 'bytes', 'eci', 'structured_append']
MASKS = [None] * 6 + list(range(8)) + [str(i) for i in range(8)] + [8, -1, 9, 100, '8', '-1', 'a', '', '1.0', ' 1']
ENCODINGS = [None] * 8 + ['utf-8', 'UTF-8', 'iso-8859-1', 'latin1', 'shift_jis', 'Shift-JIS', 'ascii', 'cp1252', 'utf-16-be', 'utf-16', 'cp850',
                          'mac_roman', 'utf-32', 'iso2022_jp',
                          'unknown-codec', 'utf8 ', '', 'rot13', 'idna', 'gb2312', 'big5', 'euc_kr', 'cp437']
BOOLS = [True, False]
COUNTS = [None] * 4 + list(range(1, 17)) + [0, 17, -1, 100]


def rnd_vector(rng, fn):
    kw = {}
    def maybe(name, table, p):
        if rng.random() < p:
            kw[name] = rng.choice(table)
    maybe('version', VERSIONS, 0.5)
    maybe('error', ERRORS, 0.5)
    maybe('mode', MODESV, 0.35)
    maybe('mask', MASKS, 0.4)
    maybe('encoding', ENCODINGS, 0.3)
    maybe('boost_error', BOOLS, 0.3)
    if fn in ('make', 'make_qr'):
        maybe('eci', BOOLS, 0.3)
    if fn == 'make':
        maybe('micro', [None, True, False], 0.4)
    if fn == 'make_sequence':
        maybe('symbol_count', COUNTS, 0.7)
    return kw


def gen_cases(tier, seed):
    rng = random.Random(seed * 122949829 + 14)
    cases = []
    n = 5000 if tier == 'quick' else 250000
    for _ in range(n):
        fn = rng.choice(['make', 'make', 'make', 'make_qr', 'make_micro', 'make_sequence'])
        cls = rng.choice(['digits', 'alnum', 'ascii', 'latin1', 'kana', 'utf8', 'cyr', 'sjis_bytes', 'lead_trail', 'hanzi',
                          'bytes', 'int', 'empty'])
        content = gen.content_of(rng, cls, rng.choice([rng.randint(0, 5), rng.randint(1, 30), rng.randint(1, 200)]))
        cases.append({'kind': 'make', 'fn': fn, 'content': content, 'kw': rnd_vector(rng, fn), 'tag': cls, 'twice': rng.random() < 0.5})
    for c_ in common.big_int_cases(rng, tier):
        cases.append({'kind': 'make', 'fn': 'make', 'content': c_['content'], 'kw': c_['kw'], 'tag': 'big-int', 'twice': False})
    # excluded combinations, systematically
    for v in ['M1', 'M2', 'M3', 'M4', 'm3']:
        cases.append({'kind': 'make', 'fn': 'make', 'content': '1', 'kw': {'version': v, 'error': 'H'}, 'tag': 'excluded'})
        cases.append({'kind': 'make', 'fn': 'make', 'content': '1', 'kw': {'version': v, 'eci': True}, 'tag': 'excluded'})
        cases.append({'kind': 'make', 'fn': 'make', 'content': '汉', 'kw': {'version': v, 'mode': 'hanzi'}, 'tag': 'excluded'})
        cases.append({'kind': 'make', 'fn': 'make_sequence', 'content': '1', 'kw': {'version': v}, 'tag': 'excluded'})
        for sc in (1, 2, 3, 16):
            for content in ('12345678901234567890', 'ABCDEFGHIJKLMNOPQRSTUVWXYZ', 'abcdefghijklmnopqrstuvwxyz'):
                cases.append({'kind': 'make', 'fn': 'make_sequence', 'content': content,
                              'kw': dict({'version': v, 'symbol_count': sc}, **({'error': 'M'} if sc == 2 else {})),
                              'tag': 'excluded'})
        cases.append({'kind': 'make', 'fn': 'make', 'content': '1', 'kw': {'version': v, 'micro': False}, 'tag': 'excluded'})
        for m in (4, 7, '5'):
            cases.append({'kind': 'make', 'fn': 'make', 'content': '1', 'kw': {'version': v, 'mask': m}, 'tag': 'excluded'})
    for kw in ({'micro': True, 'error': 'H'}, {'micro': True, 'eci': True}, {'micro': True, 'mode': 'hanzi'},
               {'micro': True, 'version': 1}, {'micro': True, 'mask': 4}, {'version': 'M1', 'mode': 'alphanumeric'},
               {'version': 'M2', 'mode': 'byte'}, {'version': 'M2', 'mode': 'kanji'}, {'version': 'M1', 'error': 'L'},
               {'mask': 8}, {'mask': -1}, {'version': 41}, {'version': 0}, {'version': 'M5'}):
        for content in ('1', 'A', 'a', '点'):
            cases.append({'kind': 'make', 'fn': 'make', 'content': content, 'kw': dict(kw), 'tag': 'excluded'})
    for fn, kw in (('make_micro', {'error': 'H'}), ('make_micro', {'mode': 'hanzi'}), ('make_micro', {'version': 1}),
                   ('make_qr', {'version': 'M1'}), ('make_sequence', {'symbol_count': 0}), ('make_sequence', {'symbol_count': 17}),
                   ('make_sequence', {}), ('make_sequence', {'version': 1, 'symbol_count': 17})):
        cases.append({'kind': 'make', 'fn': fn, 'content': '12345678', 'kw': dict(kw), 'tag': 'excluded'})
    # spelling pairs
    for _ in range(500 if tier == 'quick' else 6000):
        cls = rng.choice(['digits', 'alnum', 'ascii', 'latin1', 'kana'])
        content = gen.content_of(rng, cls, rng.randint(1, 25))
        canon, alt = {}, {}
        if rng.random() < 0.7:
            v = rng.choice(oracle.ALL_VERSIONS)
            canon['version'] = v
            alt['version'] = str(v) if isinstance(v, int) else rng.choice([v.lower(), v[0].lower() + v[1]])
        if rng.random() < 0.7:
            e = rng.choice(['L', 'M', 'Q', 'H'])
            canon['error'] = e
            alt['error'] = e.lower()
        if rng.random() < 0.5:
            m = rng.choice(['numeric', 'alphanumeric', 'byte', 'kanji'])
            canon['mode'] = m
            alt['mode'] = rng.choice([m.upper(), m.capitalize(), m[0].upper() + m[1:]])
        if rng.random() < 0.6:
            k = rng.randint(0, 3)
            canon['mask'] = k
            alt['mask'] = str(k)
        if rng.random() < 0.3:
            canon['encoding'] = 'utf-8'
            alt['encoding'] = rng.choice(['UTF-8', 'Utf-8', 'utf8', 'UTF8'])
        if not canon:
            continue
        cases.append({'kind': 'spelling', 'content': content, 'canon': canon, 'alt': alt})
    # serialisers
    BAD_COLORS = ['', '#', '#12', '#12345', '#1234567', '#123456789', 'notacolor', '#ggg', '#gggggg', 'rgb(0,0,0)', ' red', 'red ',
                  '#0x12ab', '#12_345', '#+12345', '#-12345', '# 12345', '#12 345', '0x123456', '#１２３', '#12345６',
                  (1, 2), (1,), (), (1, 2, 3, 4, 5), (256, 0, 0), (-1, 0, 0), (0, 0, 256), (0, 0, 0, 256), (0, 0, 0, -1),
                  (0, 0, 0, 1.5), (0, 0, 0, -0.1)]
    GOOD_COLORS = ['red', 'RED', '#abc', '#AABBCC', '#aabbcc80', '#abcd', (1, 2, 3), (1, 2, 3, 128), (1, 2, 3, 0.5), 'transparent-none']
    for kind in ('png', 'svg', 'eps', 'pdf', 'pam', 'ppm', 'xpm'):
        for c in BAD_COLORS:
            for arg in ('dark', 'light'):
                cases.append({'kind': 'ser', 'out': kind, 'kw': {arg: c}, 'expect': 'refuse'})
        for c in GOOD_COLORS[:8]:
            if c == 'transparent-none':
                continue
            if kind in ('ppm', 'eps', 'pdf', 'xpm', 'pam') and (isinstance(c, tuple) and len(c) == 4 or (isinstance(c, str) and len(c) in (5, 9))):
                continue  # alpha colours are documented for PNG and SVG only
            cases.append({'kind': 'ser', 'out': kind, 'kw': {'dark': c}, 'expect': 'accept'})
    # refusals the serialisers document besides malformed colours (every one of these lines of the library is reached by
    # no other workload - tools/linecov.py)
    for kind in ('eps', 'pdf'):
        for c in ((1.5, 0.0, 0.0), (0.0, -0.1, 0.0), (0.0, 0.0, 1.0000001), (2.0, 2.0, 2.0)):
            for arg in ('dark', 'light'):
                cases.append({'kind': 'ser', 'out': kind, 'kw': {arg: c}, 'expect': 'refuse'})
        for c in ((1.0, 0.0, 0.0), (0.0, 0.5, 1.0), (0.25, 0.25, 0.25)):
            cases.append({'kind': 'ser', 'out': kind, 'kw': {'dark': c}, 'expect': 'accept'})
    for unit in ('mm', 'cm', 'px'):
        cases.append({'kind': 'ser', 'out': 'svg', 'kw': {'unit': unit, 'omitsize': True}, 'expect': 'refuse'})
        cases.append({'kind': 'ser', 'out': 'svg', 'kw': {'unit': unit}, 'expect': 'accept'})
    for dpi in (-1, -300, -0.5, 'x', None):
        cases.append({'kind': 'ser', 'out': 'png', 'kw': {'dpi': dpi}, 'expect': 'any'})
    for dpi in (0, 72, 300, 600.0):
        cases.append({'kind': 'ser', 'out': 'png', 'kw': {'dpi': dpi}, 'expect': 'accept'})
    for kw in ({'light': None}, {'dark': None}, {'finder_dark': None}, {'quiet_zone': None}, {'data_light': None, 'dark': 'red'}):
        cases.append({'kind': 'ser', 'out': 'ppm', 'kw': kw, 'expect': 'refuse'})     # PPM has no transparency
    # a valid colour first, then a malformed one that compares equal to it in Python (255 == 255.0, 1 == True): a result cache
    # keyed by the argument must not turn the refusal into an acceptance
    for kind in ('png', 'svg'):
        for valid, invalid in (((10, 20, 30, 255), (10, 20, 30, 255.0)), ((1, 2, 3, 128), (1, 2, 3, 128.0)), ((9, 9, 9, 2), (9, 9, 9, 2.0))):
            for arg in ('dark', 'light'):
                cases.append({'kind': 'ser-seq', 'out': kind, 'steps': [[{arg: valid}, 'accept'], [{arg: invalid}, 'refuse']]})
    for kind in ('png', 'svg', 'eps', 'pdf', 'pam', 'ppm', 'xpm', 'pbm', 'xbm', 'tex'):
        for s in (0, -1, -0.5, 0.0, -100):
            cases.append({'kind': 'ser', 'out': kind, 'kw': {'scale': s}, 'expect': 'refuse'})
        for b in (-1, 1.5, -0.5, 0.3, -100):
            cases.append({'kind': 'ser', 'out': kind, 'kw': {'border': b}, 'expect': 'refuse'})
        for s in (1, 2, 10, 3.0):
            cases.append({'kind': 'ser', 'out': kind, 'kw': {'scale': s, 'border': rng.choice([0, 1, None, 7])}, 'expect': 'accept'})
        raster = kind in ('png', 'pam', 'ppm', 'xpm', 'pbm', 'xbm')
        for s in (0.5, 0.99, 0.01):
            cases.append({'kind': 'ser', 'out': kind, 'kw': {'scale': s}, 'expect': 'refuse' if raster else 'accept'})
    for kind in ('txt', 'ans'):
        for b in (-1, 1.5, -0.5):
            cases.append({'kind': 'ser', 'out': kind, 'kw': {'border': b}, 'expect': 'refuse'})
        cases.append({'kind': 'ser', 'out': kind, 'kw': {'border': 0}, 'expect': 'accept'})
    for bad in ('bmp', 'jpg', 'PNGX', '', 'svg ', 'p n g', 'gif', 'tiff', 'html'):
        cases.append({'kind': 'ser', 'out': bad, 'kw': {}, 'expect': 'refuse'})
        cases.append({'kind': 'serpath', 'name': 'x.' + bad, 'expect': 'refuse'})
    for good in ('PNG', 'Svg', 'EPS', 'Pdf', 'TXT', 'pBm'):
        cases.append({'kind': 'ser', 'out': good, 'kw': {}, 'expect': 'accept'})
    # terminal
    for b in (-1, 1.5):
        cases.append({'kind': 'terminal', 'kw': {'border': b}, 'expect': 'refuse'})
        cases.append({'kind': 'terminal', 'kw': {'border': b, 'compact': True}, 'expect': 'refuse'})
    # CLI
    ncli = 110 if tier == 'quick' else 1200
    CLI_FIXED = [['--version=M1', '--error=H', '1'], ['--micro', '--error=h', '1'], ['--version=41', 'x'], ['--pattern=9', 'x'],
                 ['--version=M1', 'ABC'], ['--version=1', '--error=H', 'x' * 30], ['--mode=numeric', 'abc'], ['--mode=kanji', 'abc'],
                 ['--micro', 'x' * 100], ['--seq', '--symbol-count=17', 'abcdef'], ['--seq', 'abc'], ['--seq', '--version=M1', 'abc'],
                 ['--encoding=latin1', 'ウ'], ['--version=M2', '--mode=byte', 'a'], ['--error=L', '--version=40', '9' * 7090]]
    for argv in CLI_FIXED:
        cases.append({'kind': 'cli', 'argv': argv, 'ext': rng.choice(['png', 'svg', 'txt', None])})
    for _ in range(ncli):
        argv = []
        if rng.random() < 0.5:
            argv.append('--version=%s' % rng.choice([1, 2, 5, 'M1', 'M2', 'M3', 'M4', 'm4', 41, 0, 'M5', 10]))
        if rng.random() < 0.5:
            argv.append('--error=%s' % rng.choice(['L', 'M', 'Q', 'H', 'l', 'h', '-']))
        if rng.random() < 0.3:
            argv.append('--mode=%s' % rng.choice(['numeric', 'alphanumeric', 'byte', 'kanji', 'hanzi']))
        if rng.random() < 0.3:
            argv.append('--pattern=%s' % rng.choice([0, 3, 4, 7, 8]))
        if rng.random() < 0.2:
            argv.append('--micro' if rng.random() < 0.5 else '--no-micro')
        if rng.random() < 0.15:
            argv += ['--seq', '--symbol-count=%d' % rng.choice([1, 2, 3, 17])]
        if rng.random() < 0.2:
            argv.append('--no-error-boost')
        argv.append(gen.content_for_bits(rng.choice(['numeric', 'alphanumeric', 'byte']), rng.choice([1, 3, 10, 40])))
        cases.append({'kind': 'cli', 'argv': argv, 'ext': rng.choice(['png', 'svg', 'txt', 'pdf', 'eps', None, None])})
    # CLI: the output cannot be stored
    for how in ('missing-directory', 'is-a-directory', 'device-full'):
        for ext in ('png', 'svg', 'txt', 'pdf', 'pbm'):
            cases.append({'kind': 'cli-unwritable', 'how': how, 'ext': ext, 'argv': [rng.choice(['Hello', '12345', 'ABC DEF'])]})
            if how == 'device-full':
                cases.append({'kind': 'cli-unwritable', 'how': how, 'ext': ext, 'argv': ['--scale=20', '--version=20', 'big']})
    # CLI: documented alternative spellings give the same output as the canonical ones
    for canon, alt in ((['--version=M3'], ['--version=m3']), (['--version=M1'], ['--version=m1']), (['--version=M4', '--error=L'], ['--version=m4', '--error=l']),
                       (['--error=Q'], ['--error=q']), (['--error=H'], ['--error=h']), (['--mode=byte'], ['--mode=BYTE']),
                       (['--mode=alphanumeric'], ['--mode=Alphanumeric']), (['--version=7'], ['-v', '7']), (['--pattern=3'], ['-p', '3'])):
        for content in ('12345', 'ABC'):
            cases.append({'kind': 'cli-pair', 'canon': canon + [content], 'alt': alt + [content]})
    rng.shuffle(cases)
    return cases


ALLOWED_MICRO_LEVELS = {'M1': [None], 'M2': ['L', 'M'], 'M3': ['L', 'M'], 'M4': ['L', 'M', 'Q']}


def must_refuse(case):
    """Model of the combinations the documentation excludes. Returns a reason or None."""
    fn, kw = case['fn'], case['kw']
    a = oracle.normalize_args(dict(kw))
    v = a['version_name']
    e = a['error_name']
    if 'version' in kw and kw['version'] is not None:
        if v == '?' or (isinstance(v, int) and not 1 <= v <= 40):
            return 'version outside M1-M4 / 1-40'
    if kw.get('error') is not None and e == '?':
        return 'illegal error level'
    mode = oracle.norm_mode(kw.get('mode'))
    if mode == '?':
        return 'illegal mode'
    mk = a['mask_int']
    if kw.get('mask') is not None:
        if mk == '?' or not 0 <= mk <= 7:
            return 'mask out of range'
    micro = kw.get('micro')
    if fn == 'make_micro':
        micro = True
    if fn == 'make_qr':
        micro = False
    is_micro_v = isinstance(v, str) and v != '?'
    if fn == 'make_sequence':
        sc = kw.get('symbol_count')
        if is_micro_v:
            return 'Structured Append with a Micro QR version'
        if sc is not None and not 1 <= sc <= 16:
            return 'symbol_count outside 1-16'
        if sc is None and v is None:
            return 'neither version nor symbol_count'
        return None
    if is_micro_v and micro is False:
        return 'Micro version with micro=False'
    if micro is True and isinstance(v, int):
        return 'QR version with micro=True'
    if e == 'H' and (micro is True or is_micro_v):
        return 'level H with Micro QR'
    if kw.get('eci') and (micro is True or is_micro_v):
        return 'ECI with Micro QR'
    if mode == 'hanzi' and (micro is True or is_micro_v):
        return 'hanzi with Micro QR'
    if mode and v not in (None, '?') and not oracle.mode_available(v, mode):
        return 'mode not available in the version'
    if is_micro_v and kw.get('mask') is not None and mk not in ('?',) and mk > 3:
        return 'mask out of range for Micro QR'
    if is_micro_v and e not in (None, '?') and e not in ALLOWED_MICRO_LEVELS[v]:
        return 'level not defined for this Micro version'
    return None


def unknown_codec(name):
    # "unknown" = Python cannot use the name as a text encoding (str.encode itself raises LookupError)
    if name is None:
        return False
    try:
        'x'.encode(name)
        return False
    except LookupError:
        return True
    except Exception:  # noqa: BLE001
        return False


def run_make(case, rec):
    import segno
    fn = getattr(segno, case['fn'])
    kw = case['kw']
    given = '+'.join(sorted(kw))
    monitors.State.last = None
    monitors.State.seq_last = None
    # every third call passes the options by position, in the documented order (check_forwarding then compares what
    # arrived at the encoder with what was passed)
    pos = common.positional_args(case['fn'], kw) if common.by_position(case) else None
    try:
        if pos is not None:
            rec.count('calls_with_positional_options')
            q = fn(case['content'], *pos)
        else:
            q = fn(case['content'], **kw)
        ex = None
    except Exception as e:  # noqa: BLE001
        q, ex = None, e
    reason = None
    try:
        reason = must_refuse(case)
    except Exception:  # noqa: BLE001
        reason = None
    if ex is None:
        rec.count('accepted')
        common.check_forwarding(case, rec, 'C14')
        rec.seen('%s|accepted|%s' % (case['fn'], given))
        if reason:
            rec.deviation('C14', 'excluded-combination-accepted', {'reason': reason, 'got': getattr(q, 'designator', None) or [x.designator for x in q]})
        # an accepted Micro symbol must not carry a mask > 3, H, eci ...
        syms = list(q) if case['fn'] == 'make_sequence' else [q]
        if not 1 <= len(syms) <= 16:
            rec.deviation('C14', 'sequence-length', {'n': len(syms)})
        for sym in syms:
            if sym.is_micro and case['fn'] in ('make_qr', 'make_sequence'):
                rec.deviation('C14', 'micro-from-qr-factory', {'got': sym.designator})
            if not sym.is_micro and case['fn'] == 'make_micro':
                rec.deviation('C14', 'qr-from-micro-factory', {'got': sym.designator})
            if sym.is_micro and (sym.error == 'H' or kw.get('eci')):
                rec.deviation('C14', 'excluded-combination-accepted', {'got': sym.designator, 'eci': kw.get('eci')})
        if case['fn'] == 'make_sequence':
            for sym in syms:
                devs, s, info = oracle.check_symbol(sym.matrix, {}, None, {'C02', 'C03'})
                for prop, kind, detail in devs:
                    rec.deviation(prop, kind, detail)
        return
    name = type(ex).__name__
    if case.get('twice'):
        # a refusal must not leave anything behind that changes the next identical call
        try:
            fn(case['content'], **kw)
            second = 'accepted'
        except Exception as ex2:  # noqa: BLE001
            second = type(ex2).__name__
        rec.count('repeated_refusals_compared')
        if second != name:
            rec.deviation('C14', 'repeated-call-differs', {'first': name, 'second': second})
    rec.count('refused:%s' % name)
    rec.seen('%s|%s|%s' % (case['fn'], name, given))
    if isinstance(ex, ValueError):
        if reason:
            rec.count('excluded_combination_refused')
        return
    if isinstance(ex, LookupError) and not isinstance(ex, (IndexError, KeyError)) and unknown_codec(kw.get('encoding')):
        rec.count('refused_unknown_codec')
        return
    rec.deviation('C14', 'exception-class', {'type': name, 'message': str(ex)[:200]})


def run_spelling(case, rec):
    import segno
    res = []
    for kw in (case['canon'], case['alt']):
        try:
            q = segno.make(case['content'], **kw)
            res.append(('ok', tuple(bytes(r) for r in q.matrix), q.designator, q.mask))
        except ValueError as ex:
            res.append(('ValueError', None, None, None))
        except Exception as ex:  # noqa: BLE001
            res.append((type(ex).__name__, None, None, None))
    rec.seen('spelling|' + '+'.join(sorted(case['canon'])) + '|' + res[0][0])
    if res[0] != res[1]:
        rec.deviation('C14', 'spelling-changes-result', {'canonical': case['canon'], 'alternative': case['alt'],
                                                         'canonical_result': res[0][0::2], 'alternative_result': res[1][0::2]})
    else:
        rec.count('spelling_pairs_equal')
        if res[0][0] == 'ok':
            rec.count('spelling_pairs_equal_accepted')


TEXT_KINDS = ('eps', 'xpm', 'xbm', 'txt', 'tex', 'ans')


def run_ser(case, rec, q):
    kind = case['out']
    out = io.StringIO() if kind.lower() in TEXT_KINDS else io.BytesIO()
    try:
        q.save(out, kind=kind, **case['kw'])
        ex = None
    except Exception as e:  # noqa: BLE001
        ex = e
    rec.seen('ser|%s|%s|%s' % (kind, core.short(case['kw'], 60), type(ex).__name__ if ex else 'ok'))
    judge_ser(case, ex, rec, {'kind': kind, 'kw': case['kw']})


def judge_ser(case, ex, rec, what):
    if case['expect'] == 'any':
        # not one of the refusals the property lists: accepted or refused, but a refusal is a ValueError
        if ex is not None and not isinstance(ex, ValueError):
            rec.deviation('C14', 'serializer-exception-class', dict(what, type=type(ex).__name__, message=str(ex)[:120]))
        else:
            rec.count('serializer_other_option_values')
        return
    if case['expect'] == 'refuse':
        if ex is None:
            rec.deviation('C14', 'serializer-accepted-invalid', what)
        elif not isinstance(ex, ValueError):
            rec.deviation('C14', 'serializer-exception-class', dict(what, type=type(ex).__name__, message=str(ex)[:120]))
        else:
            rec.count('serializer_refusals')
    else:
        if ex is not None:
            rec.deviation('C14', 'serializer-refused-valid', dict(what, type=type(ex).__name__, message=str(ex)[:120]))
        else:
            rec.count('serializer_accepts')


def run_cli(case, rec, tmpdir):
    import segno
    argv = list(case['argv'])
    outfile = None
    if case['ext']:
        outfile = os.path.join(tmpdir, 'o%d.%s' % (rec.counters['cli_runs'], case['ext']))
        argv = ['--output=' + outfile] + argv
    env = core.child_env()
    p = core.run_sub([sys.executable, '-m', 'segno.cli'] + argv, capture_output=True, env=env, cwd=tmpdir)
    if p.returncode is None:
        return
    rec.count('cli_runs')
    rec.seen('cli|' + ' '.join(a.split('=')[0] for a in case['argv'][:-1]) + '|%s|%d' % (case['ext'], p.returncode))
    err = p.stderr.decode('utf-8', 'replace')
    what = {'argv': argv, 'returncode': p.returncode, 'stderr': err[-300:]}
    # what the library itself says for these arguments (in-process, through the CLI's own option mapping)
    expected = None
    try:
        import contextlib
        from segno import cli
        with contextlib.redirect_stderr(io.StringIO()), contextlib.redirect_stdout(io.StringIO()):
            cfg = cli.parse(list(case['argv']))
            try:
                cli.make_code(cfg)
                expected = ('ok', None)
            except ValueError as ex:
                expected = ('refused', str(ex))
    except SystemExit:
        expected = ('argparse', None)
    except Exception:  # noqa: BLE001
        expected = None
    if expected and expected[0] == 'refused':
        # the same refusal with the tool called in this process, whose sys.stderr was replaced after segno.cli had
        # been imported (an embedding application, a test runner): status 1, message on the *current* stderr
        buf = io.StringIO()
        code = 'no-exit'
        try:
            with contextlib.redirect_stderr(buf), contextlib.redirect_stdout(io.StringIO()):
                code = cli.main(list(argv))
        except SystemExit as ex:
            code = ex.code
        except Exception as ex:  # noqa: BLE001
            code = 'raised %s' % type(ex).__name__
        rec.count('cli_refusals_in_process')
        if code != 1 or buf.getvalue().strip() != expected[1].strip():
            rec.deviation('C14', 'cli-refusal-in-process', dict(what, exit=code, current_stderr=buf.getvalue()[-200:],
                                                                library_message=expected[1][:200]))
            return
        if p.returncode != 1:
            rec.deviation('C14', 'cli-refusal-not-exit-1', dict(what, library_message=expected[1][:200]))
            return
        if err.strip() != expected[1].strip():
            rec.deviation('C14', 'cli-refusal-message', dict(what, library_message=expected[1][:200]))
            return
    if expected and expected[0] == 'ok' and p.returncode != 0:
        rec.deviation('C14', 'cli-failed-although-library-accepts', what)
        return
    if p.returncode == 0:
        if outfile and not (os.path.isfile(outfile) and os.path.getsize(outfile) > 0):
            # a sequence writes name-NN-MM.ext files
            stem = os.path.basename(outfile).rsplit('.', 1)[0]
            if not any(f.startswith(stem + '-') for f in os.listdir(tmpdir)):
                rec.deviation('C14', 'cli-exit0-without-output', what)
                return
        if not outfile and not p.stdout:
            rec.deviation('C14', 'cli-exit0-without-output', what)
            return
        rec.count('cli_ok')
        return
    if 'Traceback (most recent call last)' in err:
        rec.deviation('C14', 'cli-traceback', what)
        return
    if p.returncode == 2 and 'usage:' in err:
        rec.count('cli_argparse_refusals')   # refused by the argument parser, not while creating the symbol
        return
    if p.returncode != 1:
        rec.deviation('C14', 'cli-exit-status', what)
        return
    rec.count('cli_refusals')
    if not err.strip():
        rec.deviation('C14', 'cli-refusal-without-message', what)


def run_cli_unwritable(case, rec, tmpdir):
    """Status 0 only after the requested output has been written: the output cannot be stored (no such directory, a
    directory in place of the file, a device that is full) - whatever the tool says, it must not say 0."""
    how, ext = case['how'], case['ext']
    base = os.path.join(tmpdir, 'unw%d' % rec.counters['cli_unwritable_runs'])
    os.makedirs(base, exist_ok=True)
    if how == 'missing-directory':
        target = os.path.join(base, 'no-such-dir', 'qr.' + ext)
    elif how == 'is-a-directory':
        target = os.path.join(base, 'adir.' + ext)
        os.makedirs(target, exist_ok=True)
    elif how == 'device-full':
        if not os.path.exists('/dev/full'):
            return
        target = os.path.join(base, 'full.' + ext)
        os.symlink('/dev/full', target)
    else:
        return
    for launcher in (['-m', 'segno.cli'], [os.path.join(core.REPO, 'segno', 'cli.py')]):
        p = core.run_sub([sys.executable] + launcher + ['--output=' + target] + list(case['argv']), capture_output=True,
                         env=core.child_env(), cwd=tmpdir)
        if p.returncode is None:
            continue
        rec.count('cli_unwritable_runs')
        rec.seen('cli-unwritable|%s|%s|%s' % (how, ext, p.returncode))
        if p.returncode == 0:
            rec.deviation('C14', 'cli-exit0-without-output', {'how': how, 'launcher': launcher[-1][-12:], 'argv': case['argv'], 'ext': ext,
                                                              'stderr': p.stderr.decode('utf-8', 'replace')[-200:]})
            return


def run_cases(cases, rec, tier='quick', seed='0'):
    import segno
    monitors.install(rec, {'C01', 'C02', 'C03'})
    monitors.start_reach()
    q = segno.make('C14 serialiser probe', error='M')
    tmpdir = tempfile.mkdtemp(prefix='c14-', dir=core.WORK)
    try:
        for case in cases:
            rec.case = case
            rec.count('evaluations')
            k = case['kind']
            if k == 'make':
                run_make(case, rec)
            elif k == 'spelling':
                run_spelling(case, rec)
            elif k == 'ser':
                run_ser(case, rec, q)
            elif k == 'ser-seq':
                for kw, expect in case['steps']:
                    run_ser({'out': case['out'], 'kw': core.dec(core.enc(kw)) if False else kw, 'expect': expect}, rec, q)
            elif k == 'cli-unwritable':
                run_cli_unwritable(case, rec, tmpdir)
            elif k == 'cli-pair':
                outs = []
                for argv in (case['canon'], case['alt']):
                    target = os.path.join(tmpdir, 'pair%d.txt' % len(outs))
                    if os.path.exists(target):
                        os.remove(target)
                    pr = core.run_sub([sys.executable, '-m', 'segno.cli', '--output=' + target] + list(argv), capture_output=True,
                                        env=core.child_env(), cwd=tmpdir)
                    data = open(target, 'rb').read() if os.path.exists(target) else None
                    outs.append((pr.returncode, data))
                if any(o[0] is None for o in outs):
                    continue
                rec.count('cli_spelling_pairs')
                if outs[0] != outs[1]:
                    rec.deviation('C14', 'cli-spelling-changes-result', {'canonical': case['canon'], 'alternative': case['alt'],
                                                                         'rc': (outs[0][0], outs[1][0])})
            elif k == 'serpath':
                try:
                    q.save(os.path.join(tmpdir, case['name']))
                    ex = None
                except Exception as e:  # noqa: BLE001
                    ex = e
                judge_ser(case, ex, rec, {'name': case['name']})
            elif k == 'terminal':
                try:
                    q.terminal(out=io.StringIO(), **case['kw'])
                    ex = None
                except Exception as e:  # noqa: BLE001
                    ex = e
                judge_ser(case, ex, rec, {'terminal': case['kw']})
            elif k == 'cli':
                run_cli(case, rec, tmpdir)
    finally:
        import shutil
        shutil.rmtree(tmpdir, ignore_errors=True)
    monitors.stop_reach(rec)
    rec.case = None
