"""C15 - encoding is pure: deterministic, history-free, thread-safe, idempotent."""
import copy
import hashlib
import io
import json
import os
import random
import re
import subprocess
import sys
import threading
import time

from vmon import core, gen, monitors, oracle
from vmon.props import common

PROPERTY = 'C15'
RULE = ('a recorded list of calls (make / make_qr / make_micro / make_sequence with mixed options incl. multi-part lists, and '
        'serialisations of their results in several formats) is executed (1) each call alone in a fresh subprocess -> golden '
        'fingerprint, (2) in-process in shuffled order with repetitions and interleaved serialisations, (3) from 8 threads with '
        'sys.setswitchinterval(1e-6): barrier-started first use of every symbol size, free-running replay, and replay under a '
        'sys.monitoring LINE callback that yields (time.sleep(0)) with seeded probability inside find_and_apply_best_mask, '
        'add_finder_patterns, add_alignment_patterns, make_matrix, _encode, add_segment, make_segment, _make_colormap; every '
        'result fingerprint must equal the golden one; a state monitor fingerprints all non-callable globals of segno.consts, '
        'encoder, writers, utils, helpers, cli before/after, deep-copies arguments, and re-hashes every previously returned '
        'matrix at the end; idempotence: re-encoding with the chosen version/level/mask and boost off must give the identical '
        'matrix; distinct = distinct (call, context) executions compared with a golden fingerprint')
ASSUMPTIONS = ['golden = first call in a fresh interpreter (PYTHONHASHSEED=0)', 'interleavings are sampled, not enumerated; with the GIL only '
               'statement-granular switches exist', 'free-threaded builds are out of reach']
REQUIRED = ['evaluations', 'golden_subprocesses', 'hashseed_variants_compared', 'timezone_variants_compared', 'interaction_core_replayed', 'history_replays_compared', 'thread_calls_compared', 'barrier_rounds',
            'injected_yields', 'state_fingerprints_compared', 'returned_matrices_rehashed', 'idempotence_pairs', 'argument_snapshots_compared',
            'overlapping_call_pairs']
TIMEOUT = {'quick': 3600, 'thorough': 21600}
SEGNO_MODULES = ['consts', 'encoder', 'writers', 'utils', 'helpers', 'cli']
INJECT_FUNCS = {'encoder': ['find_and_apply_best_mask', 'add_finder_patterns', 'add_alignment_patterns', 'make_matrix', '_encode',
                            'make_segment', 'prepare_data', 'make_blocks', 'make_final_message', 'boost_error_level', 'data_to_bytes',
                            'find_version', 'encode'],
                'writers': ['_make_colormap', 'write_ppm', 'save'], 'utils': ['matrix_iter_verbose']}


def gen_cases(tier, seed):
    rng = random.Random(seed * 256203221 + 15)
    n = 320 if tier == 'quick' else 2400
    calls = []
    for i in range(n):
        r = rng.random()
        if r < 0.55:
            cls, content = gen.rnd_content(rng)
            if cls in ('empty',):
                content = 'x'
            kw = gen.rnd_options(rng)
            kw.pop('encoding', None) if rng.random() < 0.5 else None
            calls.append({'op': 'make', 'fn': rng.choice(['make', 'make', 'make_qr']), 'content': content, 'kw': kw})
        elif r < 0.7:
            parts = [gen.content_for_bits(rng.choice(['numeric', 'alphanumeric', 'byte']), rng.choice([2, 3, 4, 6])) for _ in range(rng.randint(2, 3))]
            calls.append({'op': 'make', 'fn': 'make', 'content': parts, 'kw': {}})
            # the parts on their own, so that a cache keyed by a part would be shared with the list call
            calls.append({'op': 'make', 'fn': 'make', 'content': parts[0], 'kw': {}})
        elif r < 0.74:
            calls.append(rnd_helper_call(rng))
        elif r < 0.8:
            calls.append({'op': 'make', 'fn': 'make_sequence', 'content': gen.content_for_bits(rng.choice(['numeric', 'alphanumeric', 'byte']), rng.randint(10, 80)),
                          'kw': {'symbol_count': rng.randint(1, 4)} if rng.random() < 0.5 else {'version': rng.randint(1, 4)}})
        else:
            kind = rng.choice(['png', 'svg', 'ppm', 'pdf', 'eps', 'txt', 'pbm', 'xpm'])
            skw = {}
            if kind in ('png', 'svg', 'ppm') and rng.random() < 0.6:
                for k in rng.sample(['dark', 'light', 'finder_dark', 'data_dark', 'data_light', 'quiet_zone', 'separator', 'timing_dark'], rng.randint(1, 4)):
                    skw[k] = rng.choice(['red', 'navy', '#abc', '#123456', 'gold', (1, 2, 3)])
            if kind != 'txt' and rng.random() < 0.5:
                skw['scale'] = rng.choice([1, 2, 3])
            if rng.random() < 0.5:
                skw['border'] = rng.choice([0, 0, 1, 4])
            if kind in ('png', 'svg', 'ppm', 'xpm', 'pdf', 'eps') and rng.random() < 0.3 and 'dark' not in skw and 'light' not in skw:
                skw['dark'], skw['light'] = rng.choice([('white', 'black'), ('yellow', 'blue'), ('#fff', '#000')])   # light-on-dark
            calls.append({'op': 'save', 'content': gen.content_for_bits(rng.choice(['numeric', 'alphanumeric', 'byte']), rng.randint(1, 50)),
                          'make_kw': rng.choice([{}, {'error': 'H'}, {'micro': False}, {'version': 5}]), 'kind': kind, 'kw': skw})
    # same version for many contents: the thread phase makes them concurrently
    # (a group stays in one shard: one entry holding the eight calls)
    for v in (oracle.MICRO + [1, 2, 3, 4, 5, 6, 7, 8, 9, 10, 11, 12] if tier == 'quick' else oracle.ALL_VERSIONS * 2):
        group = []
        for j in range(8):
            n_ = gen.max_chars(v, oracle.levels_of(v)[-1], 'numeric')
            group.append({'op': 'make', 'fn': 'make', 'content': gen.digits(rng, rng.randint(1, n_)), 'kw': {'version': v}})
        calls.append({'op': 'barrier-group', 'version': str(v), 'calls': group})
    # integers beyond Python's int -> str limit (4300 digits), several threads at once: the interpreter setting that
    # decides about them is process-wide, whoever touches it must not make the outcome depend on the neighbours
    for g_ in range(12 if tier == 'quick' else 40):
        group = [{'op': 'make', 'fn': 'make', 'content': 10 ** (4350 + 7 * j + g_) + rng.randrange(10 ** 9), 'kw': {'error': 'L', 'micro': False}}
                 for j in range(8)]
        calls.append({'op': 'barrier-group', 'version': 'bigint%d' % g_, 'calls': group})
    k = 0
    for c in calls:
        for cc in (c['calls'] if c['op'] == 'barrier-group' else [c]):
            cc['id'] = k
            k += 1
    rng.shuffle(calls)
    return calls


def rnd_helper_call(rng):
    """The factories of segno.helpers return symbols too: same arguments, same symbol, in whichever thread."""
    fn = rng.choice(['make_epc_qr', 'make_epc_qr', 'make_wifi', 'make_mecard', 'make_vcard', 'make_geo', 'make_email'])
    if fn == 'make_epc_qr':
        # amounts incl. ties beyond the second decimal (their rendering must not depend on who asks)
        kw = {'name': rng.choice(['Wikimedia', 'Émile Zola', 'A B']), 'iban': 'DE33100205000001194700',
              'amount': rng.choice([12.125, 0.375, '2.675', 1, '100.005', 12.3, '0.015', 999999999.99, 20.5, '7.125'])}
        if rng.random() < 0.85:
            kw['text'] = rng.choice(['Spende', 'Grüße', 'x'])
        else:
            kw['reference'] = 'RF18539007547034'
        if rng.random() < 0.3:
            kw['encoding'] = rng.choice([1, 2, 'utf-8', 'iso-8859-1'])
    elif fn == 'make_wifi':
        kw = {'ssid': rng.choice(['net', 'my;net', 'Käse']), 'password': rng.choice([None, 'secret', 'p:w;d']),
              'security': rng.choice([None, 'WPA', 'wep'])}
        if rng.random() < 0.3:
            kw['hidden'] = True
    elif fn == 'make_mecard':
        kw = {'name': rng.choice(['Doe,John', 'Müller;X']), 'email': rng.choice([None, 'a@example.org', ('a@example.org', 'b@example.org')]),
              'phone': rng.choice([None, '+1 555 123'])}
    elif fn == 'make_vcard':
        kw = {'name': rng.choice(['Doe;John', 'Mustermann;Erika']), 'displayname': rng.choice(['John Doe', 'Erika M.']),
              'email': rng.choice([None, 'a@example.org']),
              'birthday': rng.choice([None, '1980-05-17', {'$date': [1980, 5, 17]}, {'$datetime': [1980, 5, 17, 0, 20, 0]}]),
              'rev': rng.choice([None, None, '2020-05-05', {'$date': [2001, 1, 1]}, {'$datetime': [1976, 9, 19, 23, 30, 0]},
                                 {'$datetime': [1976, 9, 19, 0, 30, 0]}])}
    elif fn == 'make_geo':
        kw = {'lat': rng.choice([38.8976763, -0.5, 0, 90]), 'lng': rng.choice([-77.0365297, 12.25, 180])}
    else:
        kw = {'to': rng.choice(['me@example.org', ('a@example.org', 'b@example.org')]), 'subject': rng.choice([None, 'Hi there', 'a&b=c'])}
    return {'op': 'helper', 'fn': fn, 'kw': kw}


def interaction_groups():
    """Groups of calls that differ in exactly one respect (same kind / other colours, same content / other options, same size /
    other content, lists sharing parts, with / without ECI header), so that state keyed by a *part* of the arguments (a
    cache, a reused colour map, a shared buffer, a consumed generator) changes a result. Every worker replays one group
    (all groups in the thorough tier) in addition to its shard."""
    groups = []
    for kind in ('ppm', 'png', 'svg'):
        g = []
        for cols in ({'dark': 'red', 'light': 'white'}, {'dark': 'navy', 'light': 'gold'}, {'dark': '#123456', 'light': '#abc', 'finder_dark': 'red'},
                     {'dark': 'gold', 'light': 'navy', 'data_light': '#123456'}, {}):
            g.append({'op': 'save', 'content': 'INTERACTION', 'make_kw': {}, 'kind': kind, 'kw': dict(cols)})
        groups.append(g)
    groups.append([{'op': 'make', 'fn': 'make', 'content': 'ABC123', 'kw': dict(kw)}
                   for kw in ({}, {'error': 'H'}, {'mask': 3}, {'version': 5}, {'micro': False}, {'boost_error': False}, {'mode': 'byte'})] +
                  [{'op': 'make', 'fn': 'make', 'content': content, 'kw': {'version': 2}}
                   for content in ('12345678', '1234567', 'ABCDEFGH', 'abcdefgh', '点茗荷', b'\x00\x01\x02')])
    groups.append([{'op': 'make', 'fn': 'make', 'content': content, 'kw': {}}
                   for content in (['ABCD', 'EF'], 'ABCD', ['ABCD', 'EF', 'GH'], ['123', '456'], '123', ['123', '456', 'abc'], ['abc', 'def'],
                                   'abc', 'ABCDEF', ['SEGNO ', 'QR CODE ', 'GENERATOR'], 'SEGNO ', ['777', '777', '777'], '777')])
    for ns in ((15, 16, 17, 18), (30, 31, 32, 33)):
        groups.append([{'op': 'make', 'fn': 'make', 'content': 'a' * n, 'kw': dict(kw, micro=False)} for n in ns
                       for kw in ({'eci': True}, {'eci': True, 'encoding': 'utf-8'}, {'eci': True, 'encoding': 'latin1'}, {})])
    for kind in ('png', 'svg'):
        g = []
        for cols in ({'dark': '#0000ffcc', 'light': None}, {'dark': '#12345680', 'light': None, 'finder_dark': 'black'},
                     {'dark': (10, 20, 30, 255)}, {'dark': (10, 20, 30, 255.0)}, {'dark': '#abcd', 'light': None}):
            for rep in range(3):
                g.append({'op': 'save', 'content': 'INTERACTION', 'make_kw': {}, 'kind': kind, 'kw': dict(cols)})
        groups.append(g)
    groups.append([{'op': 'make', 'fn': 'make', 'content': c, 'kw': {}} for c in (1, True, 0, False, '1', b'1', 'True', 10, -1, 1, True, False, 0)])
    for enc in ('utf-16', 'utf-8-sig', 'iso2022_jp'):
        groups.append([{'op': 'make', 'fn': 'make', 'content': c, 'kw': {'encoding': enc}}
                       for c in ('Käse 2024', 'abc', '点茗€', '点茗', 'Käse 2024', 'abc', '点茗', 'x', 'Käse 2024')])
    groups.append([{'op': 'make', 'fn': 'make', 'content': c, 'kw': dict(kw)} for c in ('abc', 'Grüße') for rep in range(2)
                   for kw in ({'eci': True, 'encoding': 'utf-16'}, {'eci': True, 'encoding': 'cp850'}, {'eci': True, 'encoding': 'utf-8'},
                              {'eci': True, 'encoding': 'gb2312'}, {'eci': True})])
    groups.append([{'op': 'save', 'content': 'INTERACTION', 'make_kw': {'error': 'Q'}, 'kind': kind, 'kw': dict(skw)}
                   for kind in ('pdf', 'eps', 'txt', 'xpm', 'pam') for skw in ({}, {'scale': 2}, {'border': 1})])
    # a refused call in between: an unknown codec name, an encoding that cannot represent the text, an excluded
    # combination - then the call that was made before must give what it gave before
    groups.append([{'op': 'make', 'fn': 'make', 'content': c, 'kw': dict(kw)} for c, kw in
                   (('点茗', {}), ('x', {'encoding': 'utf-9'}), ('点茗', {}), ('点茗荷', {'encoding': 'no-such-codec'}), ('点茗', {}),
                    ('Grüße', {'encoding': 'ascii'}), ('点茗', {}), ('abc', {'version': 'M1'}), ('点茗', {}), ('1', {'error': 'H', 'micro': True}),
                    ('点茗', {}), ('Grüße', {}), ('12345', {}), ('HELLO', {}))])
    for png_kw in ({'border': 0, 'scale': 1, 'dark': 'white', 'light': 'black'}, {'border': 0, 'dark': 'yellow', 'light': 'blue'},
                   {'border': 0, 'dark': 'white', 'light': None}, {'border': 0}, {'border': 0, 'scale': 1, 'dark': '#fff', 'light': '#000'}):
        groups.append([{'op': 'save', 'content': c, 'make_kw': mk, 'kind': kind, 'kw': dict(png_kw)}
                       for kind in ('png', 'pbm', 'xpm', 'pam') for c, mk in (('INTERACTION', {}), ('123', {'micro': True}), ('INTERACTION', {'version': 7}))
                       if not (kind == 'pbm' and ('dark' in png_kw))])
    # the helper factories (always replayed, see run_cases): amounts with a tie beyond the second decimal, whose
    # rendering depends on the decimal context of whoever asks if the library touches that context
    groups.append([{'op': 'helper', 'fn': 'make_epc_qr', 'kw': {'name': 'N', 'iban': 'DE33100205000001194700', 'amount': a, 'text': 'x'}}
                   for a in (12.125, '12.125', 0.375, '2.675', 12.13, 12.12, '100.005', 0.01)] +
                  [{'op': 'helper', 'fn': 'make_wifi', 'kw': {'ssid': 'net', 'password': 'p;w', 'security': 'WPA'}},
                   {'op': 'helper', 'fn': 'make_geo', 'kw': {'lat': 38.8976763, 'lng': -77.0365297}},
                   {'op': 'helper', 'fn': 'make_mecard', 'kw': {'name': 'Doe,John', 'email': 'a@example.org'}},
                   # recipients listed more than once: the order of the result is the order given, in every interpreter
                   {'op': 'helper', 'fn': 'make_email', 'kw': {'to': ('b@example.org', 'a@example.org', 'b@example.org', 'c@example.org'),
                                                                'cc': ('z@example.org', 'y@example.org', 'z@example.org'), 'subject': 'Hi'}},
                   {'op': 'helper', 'fn': 'make_mecard', 'kw': {'name': 'Doe,John', 'email': ('b@example.org', 'a@example.org', 'b@example.org'),
                                                                 'phone': ('2', '1', '2', '3')}}] +
                  # date / time values just before and after midnight: the day written must not depend on the time zone
                  # of the process (goldens are also taken under two other TZ settings, see golden_in_subprocess)
                  [{'op': 'helper', 'fn': 'make_vcard', 'kw': {'name': 'Doe;John', 'displayname': 'John Doe', 'rev': r, 'birthday': b}}
                   for r, b in (({'$datetime': [1976, 9, 19, 23, 30, 0]}, None), ({'$datetime': [1976, 9, 19, 0, 30, 0]}, None),
                                (None, {'$datetime': [1980, 5, 17, 23, 59, 59]}), ({'$date': [2001, 1, 1]}, {'$date': [1980, 5, 17]}))])
    k = 900000
    for g in groups:
        for c in g:
            c['id'] = k
            k += 1
    return groups


_STAMPS = [(re.compile(rb'(%%CreationDate: )[0-9: -]{19}'), rb'\1' + b'X' * 19),
           (re.compile(rb"(/CreationDate\(D:)[0-9+\-']{21}"), rb'\1' + b'X' * 21)]


def _real(v):
    """JSON-able stand-ins for date / datetime arguments."""
    import datetime
    if isinstance(v, dict) and '$datetime' in v:
        return datetime.datetime(*v['$datetime'])
    if isinstance(v, dict) and '$date' in v:
        return datetime.date(*v['$date'])
    return v


def execute(call):
    """Runs one recorded call against the real library -> (fingerprint, result object)."""
    import segno
    try:
        if call['op'] == 'make':
            res = getattr(segno, call['fn'])(call['content'], **call['kw'])
            syms = list(res) if call['fn'] == 'make_sequence' else [res]
            h = hashlib.sha256()
            for q in syms:
                h.update(b'|'.join(bytes(r) for r in q.matrix))
                h.update(repr((q.version, q.error, q.mask, q.mode, q.designator, q.is_micro)).encode())
            return 'ok:' + h.hexdigest()[:24], syms
        if call['op'] == 'helper':
            from segno import helpers
            q = getattr(helpers, call['fn'])(**{k: _real(v) for k, v in call['kw'].items()})
            h = hashlib.sha256(b'|'.join(bytes(r) for r in q.matrix))
            h.update(repr((q.version, q.error, q.mask, q.mode, q.designator, q.is_micro)).encode())
            return 'ok:' + h.hexdigest()[:24], [q]
        q = segno.make(call['content'], **call['make_kw'])
        before = [bytes(r) for r in q.matrix]
        out = io.StringIO() if call['kind'] in ('eps', 'xpm', 'xbm', 'txt', 'tex', 'ans') else io.BytesIO()
        q.save(out, kind=call['kind'], **call['kw'])
        data = out.getvalue()
        data = data.encode('utf-8') if isinstance(data, str) else data
        for rx, rep in _STAMPS:
            data = rx.sub(rep, data)
        after = [bytes(r) for r in q.matrix]
        if after != before:
            return 'symbol-changed-by-serialisation: rows %d -> %d, row length %d -> %d, %d rows differ' % (
                len(before), len(after), len(before[0]), len(after[0]) if after else -1,
                sum(1 for a, b in zip(before, after) if a != b)), [q]
        return 'ok:' + hashlib.sha256(data).hexdigest()[:24], [q]
    except Exception as ex:  # noqa: BLE001
        return 'raised:%s:%s' % (type(ex).__name__, str(ex)[:80].strip()), []


def golden_in_subprocess(calls, rec=None):
    """Each call alone, as the first call of a fresh interpreter."""
    res = {}
    for k, c in enumerate(calls):
        p = core.run_sub([sys.executable, '-m', 'vmon.props.c15', 'one'], input=json.dumps(core.enc(c)).encode(), capture_output=True,
                           env=core.child_env(), cwd=core.VERIF)
        if p.returncode != 0:   # (None = watchdog)
            res[c['id']] = 'golden-failed:%s' % p.stderr.decode('utf-8', 'replace')[-200:]
        else:
            res[c['id']] = p.stdout.decode().strip()
        if c['op'] == 'helper' and rec is not None and p.returncode == 0:
            # the same call in fresh interpreters living in other time zones (POSIX TZ strings, no tz database needed)
            for tz in ('PSX8', 'XYZ-13'):
                p3 = core.run_sub([sys.executable, '-m', 'vmon.props.c15', 'one'], input=json.dumps(core.enc(c)).encode(), capture_output=True,
                                  env=dict(core.child_env(), TZ=tz), cwd=core.VERIF)
                if p3.returncode == 0:
                    rec.count('timezone_variants_compared')
                    if p3.stdout.decode().strip() != res[c['id']]:
                        rec.deviation('C15', 'result-depends-on-time-zone', {'default': res[c['id']], 'TZ': tz, 'other': p3.stdout.decode().strip(),
                                                                             'call': core.short(core.enc(c), 250)}, case=c)
        if (k % 4 == 0 or c['op'] == 'helper') and rec is not None:
            # the same call in another fresh interpreter with another string-hash seed: results must not depend on set / dict order
            env = dict(core.child_env(), PYTHONHASHSEED=str(1000 + k))
            p2 = core.run_sub([sys.executable, '-m', 'vmon.props.c15', 'one'], input=json.dumps(core.enc(c)).encode(), capture_output=True,
                                env=env, cwd=core.VERIF)
            rec.count('hashseed_variants_compared')
            if p2.returncode == 0 and p.returncode == 0 and p2.stdout.decode().strip() != res[c['id']]:
                rec.deviation('C15', 'result-depends-on-hash-seed', {'seed0': res[c['id']], 'other': p2.stdout.decode().strip(),
                                                                     'call': core.short(core.enc(c), 250)}, case=c)
    return res


def deep_fp(o, depth=0):
    if depth > 12:
        return '...'
    if isinstance(o, (str, int, float, bool, bytes)) or o is None:
        return repr(o)
    if isinstance(o, bytearray):
        return 'ba' + repr(bytes(o))
    if isinstance(o, dict):
        return '{' + ','.join(sorted('%s:%s' % (deep_fp(k, depth + 1), deep_fp(v, depth + 1)) for k, v in o.items())) + '}'
    if isinstance(o, (list, tuple)):
        return type(o).__name__ + '(' + ','.join(deep_fp(x, depth + 1) for x in o) + ')'
    if isinstance(o, (set, frozenset)):
        return 'set(' + ','.join(sorted(deep_fp(x, depth + 1) for x in o)) + ')'
    if callable(o):
        return 'callable:%s' % getattr(o, '__qualname__', type(o).__name__)
    if isinstance(o, re.Pattern):
        return 're:%r' % o.pattern
    return 'obj:%s' % type(o).__name__


def module_state():
    import importlib
    st = {}
    for name in SEGNO_MODULES:
        mod = importlib.import_module('segno.' + name)
        for k, v in vars(mod).items():
            if k.startswith('__') or isinstance(v, type(sys)) or isinstance(v, type) or (callable(v) and not isinstance(v, (dict, list))):
                # functions: remember attached mutable state (caches) by their cache_info if any
                if callable(v) and hasattr(v, 'cache_info'):
                    st['%s.%s.cache' % (name, k)] = 'lru_cache'
                continue
            if isinstance(v, (dict, list, set, bytearray)) and len(v) == 0 and '%s.%s' % (name, k) not in _TRACKED:
                # an empty mutable container at first sight is a cache, not a lookup table of the library: the property
                # protects the tables; a cache that changes results is caught by the golden comparison instead
                _IGNORED.add('%s.%s' % (name, k))
                continue
            if '%s.%s' % (name, k) in _IGNORED:
                continue
            _TRACKED.add('%s.%s' % (name, k))
            st['%s.%s' % (name, k)] = hashlib.sha256(deep_fp(v).encode()).hexdigest()[:16]
    # process-wide settings of the interpreter a library call has no business changing (they decide about the results of
    # later calls - the library's own and everybody else's)
    import decimal
    import locale
    c = decimal.getcontext()
    st['env:decimal-context(main thread)'] = repr((c.prec, c.rounding, c.Emin, c.Emax, c.capitals, c.clamp,
                                                   sorted(str(f) for f, on in c.traps.items() if on)))
    if hasattr(sys, 'get_int_max_str_digits'):
        st['env:int_max_str_digits'] = str(sys.get_int_max_str_digits())
    st['env:recursionlimit'] = str(sys.getrecursionlimit())
    st['env:cwd'] = os.getcwd()
    st['env:locale'] = str(locale.setlocale(locale.LC_ALL))
    st['env:environ'] = hashlib.sha256(repr(sorted(os.environ.items())).encode()).hexdigest()[:16]
    return st


_TRACKED = set()
_IGNORED = set()


def snapshot_args(call):
    return deep_fp([call.get('content'), call.get('kw'), call.get('make_kw')])


def compare(call, fp, golden, rec, context):
    rec.count('evaluations')
    want = golden.get(call['id'])
    rec.seen('%d|%s' % (call['id'], context))
    if want is None or want.startswith('golden-failed'):
        rec.count('golden_missing')
        return
    if fp.startswith('symbol-changed-by-serialisation'):
        # (a verdict of its own: the golden run executes the same code and says the same)
        rec.deviation('C15', 'symbol-changed-by-serialisation', {'context': context, 'what': fp, 'call': core.short(core.enc(call), 250)}, case=call)
    elif fp != want:
        rec.deviation('C15', 'result-differs-from-golden', {'context': context, 'got': fp, 'golden': want,
                                                            'call': core.short(core.enc(call), 250)}, case=call)


class Yielder:
    """sys.monitoring LINE callback on selected code objects: yields the GIL with seeded probability."""
    TOOL = 4

    def __init__(self, seed, prob):
        self.rng = random.Random(seed)
        self.prob = prob
        self.count = 0
        self.lock = threading.Lock()
        self.on = False

    def start(self):
        mon = getattr(sys, 'monitoring', None)
        if mon is None:
            return False
        import importlib
        try:
            mon.use_tool_id(self.TOOL, 'vmon-yield')
        except ValueError:
            return False
        mon.register_callback(self.TOOL, mon.events.LINE, self.line)
        self.codes = []
        for modname, fns in INJECT_FUNCS.items():
            mod = importlib.import_module('segno.' + modname)
            for fn in fns:
                f = getattr(mod, fn, None)
                f = getattr(f, '__wrapped__', f)
                code = getattr(f, '__code__', None)
                if code is not None:
                    mon.set_local_events(self.TOOL, code, mon.events.LINE)
                    self.codes.append(code)
        # Segments.add_segment
        from segno import encoder
        code = encoder.Segments.add_segment.__code__
        mon.set_local_events(self.TOOL, code, mon.events.LINE)
        self.codes.append(code)
        self.on = True
        return True

    def line(self, code, lineno):
        with self.lock:
            hit = self.rng.random() < self.prob
            if hit:
                self.count += 1
        if hit:
            time.sleep(0)

    def stop(self):
        if not self.on:
            return
        mon = sys.monitoring
        for code in self.codes:
            mon.set_local_events(self.TOOL, code, 0)
        mon.register_callback(self.TOOL, mon.events.LINE, None)
        mon.free_tool_id(self.TOOL)
        self.on = False


def thread_phase(name, work_by_thread, golden, rec, barrier_groups=None):
    """work_by_thread: list (one per thread) of call lists. Results are collected per thread and merged afterwards
    (the monitor's own state is thread-local until the join, so the monitor is not itself a race)."""
    nthreads = len(work_by_thread)
    results = [[] for _ in range(nthreads)]
    spans = [[] for _ in range(nthreads)]
    barrier = threading.Barrier(nthreads) if barrier_groups else None
    errors = []

    def run(i):
        try:
            for k, call in enumerate(work_by_thread[i]):
                if barrier is not None:
                    barrier.wait(timeout=120)
                t0 = time.perf_counter_ns()
                fp, _ = execute(call)
                spans[i].append((t0, time.perf_counter_ns()))
                results[i].append((call, fp))
        except Exception as ex:  # noqa: BLE001
            errors.append(repr(ex))
    old = sys.getswitchinterval()
    sys.setswitchinterval(1e-6)
    try:
        ts = [threading.Thread(target=run, args=(i,)) for i in range(nthreads)]
        for t in ts:
            t.start()
        for t in ts:
            t.join(600)
    finally:
        sys.setswitchinterval(old)
    if errors or any(t.is_alive() for t in ts):
        rec.count('thread_phase_problems')
        rec.extra.setdefault('thread_problems', []).append('%s: %s' % (name, (errors or ['thread did not finish'])[0][:200]))
    for i in range(nthreads):
        for call, fp in results[i]:
            rec.count('thread_calls_compared')
            compare(call, fp, golden, rec, 'threads:' + name)
    # how much real overlap was produced
    allspans = sorted((a, b, i) for i in range(nthreads) for a, b in spans[i])
    overlap = 0
    for x in range(len(allspans)):
        a, b, i = allspans[x]
        for y in range(x + 1, len(allspans)):
            a2, b2, j = allspans[y]
            if a2 >= b:
                break
            if i != j:
                overlap += 1
    rec.count('overlapping_call_pairs', overlap)
    if barrier_groups:
        rec.count('barrier_rounds', barrier_groups)


def run_cases(cases, rec, tier='quick', seed='0'):
    import segno
    seed = int(seed)
    rng = random.Random(seed * 7 + len(cases))
    monitors.start_reach()
    state_at_import = module_state()
    groups = [c for c in cases if c['op'] == 'barrier-group']
    plain = [c for c in cases if c['op'] != 'barrier-group']
    groups_i = interaction_groups()
    shard = int(os.environ.get('VERIF_SHARD', '0') or 0)
    nsh = max(1, core.nworkers())
    chosen = groups_i if tier == 'thorough' else [g for i, g in enumerate(groups_i[:-1]) if i % nsh == shard % nsh] + [groups_i[-1]]
    for g in chosen:
        plain = plain + g
        rec.count('interaction_core_replayed')
    golden = golden_in_subprocess(plain + [cc for g in groups for cc in g['calls']], rec)
    rec.count('golden_subprocesses', len(golden))
    # ---------------------------------------------------------------- threads first: every size is used for the first
    # time in this process by several threads at once
    nthreads = 8
    seen_versions = set()
    rounds = []
    for g in groups:
        if g['version'] not in seen_versions:
            seen_versions.add(g['version'])
            rounds.append(g['calls'])
    if rounds:
        work = [[g[i] for g in rounds] for i in range(nthreads)]
        y = Yielder(seed + 1, 0.05 if tier == 'quick' else 0.1)
        y.start()
        try:
            thread_phase('barrier-first-use+yield', work, golden, rec, barrier_groups=len(rounds))
        finally:
            y.stop()
        rec.count('injected_yields', y.count)
    state0 = module_state()
    rec.count('state_fingerprints_compared', len(state0))
    if state0 != state_at_import:
        changed = sorted(k for k in set(state0) | set(state_at_import) if state0.get(k) != state_at_import.get(k))
        rec.deviation('C15', 'library-state-changed', {'globals': changed[:10], 'after': 'threads:barrier-first-use'})
    if _IGNORED:
        rec.extra['ignored_empty_containers_treated_as_caches'] = sorted(_IGNORED)
    registry = []
    # ---------------------------------------------------------------- history: shuffled, repeated, interleaved
    reps = 3 if tier == 'quick' else 6
    for rep in range(reps):
        order = list(plain)
        rng.shuffle(order)
        for call in order:
            snap = snapshot_args(call)
            fp, objs = execute(call)
            rec.count('history_replays_compared')
            compare(call, fp, golden, rec, 'history:%d' % rep)
            rec.count('argument_snapshots_compared')
            if snapshot_args(call) != snap:
                rec.deviation('C15', 'argument-modified', {'call': core.short(core.enc(call), 250)}, case=call)
            if rep == 0 and call['op'] == 'make':
                for q in objs:
                    registry.append((call['id'], q, hashlib.sha256(b'|'.join(bytes(r) for r in q.matrix)).hexdigest()))
        st = module_state()
        rec.count('state_fingerprints_compared', len(st))
        if st != state0:
            changed = sorted(k for k in set(st) | set(state0) if st.get(k) != state0.get(k))
            rec.deviation('C15', 'library-state-changed', {'globals': changed[:10], 'after': 'history:%d' % rep})
            state0 = st
    # ---------------------------------------------------------------- idempotence
    for call in plain:
        if call['op'] != 'make' or call['fn'] == 'make_sequence' or isinstance(call['content'], list):
            continue
        try:
            q = getattr(segno, call['fn'])(call['content'], **call['kw'])
        except Exception:  # noqa: BLE001
            continue
        kw = dict(call['kw'])
        kw.update({'version': q.version, 'mask': q.mask, 'boost_error': False})
        if q.error is not None:
            kw['error'] = q.error
        else:
            kw.pop('error', None)
        kw.pop('micro', None)
        fn = segno.make
        try:
            q2 = fn(call['content'], **kw)
        except Exception as ex:  # noqa: BLE001
            rec.deviation('C15', 'idempotence-refused', {'first': q.designator, 'error': repr(ex)[:120], 'kw': core.short(kw, 150)}, case=call)
            continue
        rec.count('idempotence_pairs')
        if [bytes(r) for r in q2.matrix] != [bytes(r) for r in q.matrix] or q2.designator != q.designator:
            rec.deviation('C15', 'not-idempotent', {'first': q.designator, 'second': q2.designator, 'mask': (q.mask, q2.mask)}, case=call)
    # ---------------------------------------------------------------- threads: free running, then with yield injection
    work = []
    for i in range(nthreads):
        o = list(plain)
        random.Random(seed * 100 + i).shuffle(o)
        work.append(o[:60 if tier == 'quick' else 200])
    thread_phase('free-running', work, golden, rec)
    y = Yielder(seed + 2, 0.02)
    y.start()
    try:
        thread_phase('yield-injection', [w[:25 if tier == 'quick' else 80] for w in work], golden, rec)
    finally:
        y.stop()
    rec.count('injected_yields', y.count)
    st = module_state()
    rec.count('state_fingerprints_compared', len(st))
    if st != state0:
        changed = sorted(k for k in set(st) | set(state0) if st.get(k) != state0.get(k))
        rec.deviation('C15', 'library-state-changed', {'globals': changed[:10], 'after': 'threads'})
    for cid, q, h in registry:
        rec.count('returned_matrices_rehashed')
        if hashlib.sha256(b'|'.join(bytes(r) for r in q.matrix)).hexdigest() != h:
            rec.deviation('C15', 'returned-symbol-changed', {'call_id': cid})
    monitors.stop_reach(rec)
    rec.case = None


if __name__ == '__main__':
    if sys.argv[1:] == ['one']:
        core.bootstrap()
        call = core.dec(json.loads(sys.stdin.read()))
        print(execute(call)[0])
