"""C06 - requested mask is used; automatic mask minimises the ISO penalty score."""
import os
import random

from refmodel import qr
from vmon import gen, monitors, oracle
from vmon.props import common

PROPERTY = 'C06'
RULE = ('symbols with automatic mask (random contents over versions weighted to <= 10, all four Micro versions, every QR '
        'version at least once, crafted contents) plus requested masks 0..7/0..3; from the emitted matrix alone all 8/4 '
        'candidate maskings are reconstructed (unmask with the mask of the format word, format/version areas and dark '
        'module light, re-mask through independent ISO Table 10 predicates) and scored with an independent ISO 7.8.3.1 / '
        '7.8.3.2 scorer; the chosen mask must be the lowest-numbered optimum; a requested mask must be the one in the '
        'format word and the unmasked stream must decode (zero syndromes); make_sequence with a requested mask is '
        'included; distinct = (version, chosen mask, auto/requested) combinations')
ASSUMPTIONS = common.ASSUME_QR + ['reading fixed in DESIGN 4.1: the dark module counts as light while masks are scored']
REQUIRED = ['cases_under_python_O', 'exact_ties_for_the_minimum', 'exact_ties_for_the_maximum_micro', 'evaluations', 'encode_observed', 'symbols_decoded', 'auto_mask_checked', 'auto_mask_checked_micro',
            'requested_mask_checked']
TIMEOUT = {'quick': 3600, 'thorough': 21600}
OPT_SLICE = {'quick': 120, 'thorough': 1500}     # cases re-run by one more worker under python -O (core.run_sharded)


def gen_cases(tier, seed):
    rng = random.Random(seed * 67867967 + 6)
    cases = []
    n_auto = 1300 if tier == 'quick' else 120000
    for _ in range(n_auto):
        cls = rng.choice(['digits', 'alnum', 'ascii', 'latin1', 'bytes', 'kana'])
        content = gen.content_of(rng, cls, rng.choice([rng.randint(1, 12), rng.randint(1, 60), rng.randint(1, 150)]))
        kw = {}
        if rng.random() < 0.5:
            kw['error'] = rng.choice(['L', 'M', 'Q', 'H'])
        if rng.random() < 0.3:
            kw['micro'] = rng.choice([True, False])
        if rng.random() < 0.3:
            kw['boost_error'] = False
        cases.append(common.mk(content, tag='auto', **kw))
    # short serial numbers: many near-ties between candidates
    for i in range(300 if tier == 'quick' else 4000):
        cases.append(common.mk('SEGNO-%04d' % i, tag='serial', error=rng.choice(['L', 'M', 'Q', 'H'])))
    # many small QR symbols: exact ties for the minimal penalty occur in 2-3 % of version 1 / 2 symbols, and only a part
    # of those ties separates "lowest-numbered" from other tie-breaks (smaller N4, last evaluated ...)
    for i in range(6000 if tier == 'quick' else 60000):
        n_ = rng.randint(1, 16)
        content = ''.join(rng.choice('0123456789ABCDEFGHIJKLMNOPQRSTUVWXYZ $%*+-./:') for _ in range(n_)) if i % 3 else gen.digits(rng, n_ + rng.randint(0, 12))
        cases.append(common.mk(content, tag='small-qr', micro=False, **({'error': rng.choice(['L', 'M', 'Q', 'H'])} if i % 2 else {})))
    # every version once (QR versions > 10 are slow: one each)
    for v in oracle.ALL_VERSIONS:
        lv = oracle.levels_of(v)[0]
        n = gen.max_chars(v, lv, 'numeric')
        reps = (1 if (isinstance(v, str) or v < 7 or v > 20) else 6) if tier == 'quick' else 12
        for _ in range(reps):
            kw = {'version': v}
            if rng.random() < 0.5 and lv:
                kw['error'] = lv
            cases.append(common.mk(gen.digits(rng, rng.randint(max(1, n // 3), n)), tag='per-version', **kw))
    # crafted: all-zero / all-ones data bytes produce long runs and 1011101 patterns after masking
    for v in (1, 2, 3, 4, 5, 7):
        for fill in (b'\x00', b'\xff', b'\x5d', b'\xba', b'\x17', b'\xe8', b'\x0b', b'\xd0'):
            n = gen.max_chars(v, 'L', 'byte')
            cases.append(common.mk(fill * rng.randint(1, n), tag='crafted', version=v, error='L', mode='byte'))
    # Micro M4: contents whose right-most column is completely dark under a candidate (extreme value of the edge score)
    for c in gen.m4_full_right_edge_contents(40 if tier == 'quick' else 400, seed):
        kw = {'version': 'M4', 'boost_error': False}
        if rng.random() < 0.7:
            kw['error'] = rng.choice(['L', 'M'])
        cases.append(common.mk(c, tag='m4-full-edge', **kw))
    # requested masks
    for _ in range(400 if tier == 'quick' else 4000):
        cls = rng.choice(['digits', 'alnum', 'ascii', 'bytes'])
        content = gen.content_of(rng, cls, rng.randint(1, 40))
        micro = rng.random() < 0.3
        kw = {'mask': rng.choice([rng.randint(0, 3 if micro else 7), str(rng.randint(0, 3 if micro else 7))])}
        if micro:
            kw['micro'] = True
        else:
            kw['micro'] = False
        cases.append(common.mk(content, tag='requested', **kw))
    for _ in range(100 if tier == 'quick' else 1000):
        kw = {'mask': rng.randint(0, 7)}
        if rng.random() < 0.6:
            kw['version'] = rng.randint(1, 7)
        else:
            kw['symbol_count'] = rng.randint(1, 3)
        cases.append({'fn': 'make_sequence', 'content': gen.content_for_bits(rng.choice(['numeric', 'alphanumeric', 'byte']), rng.randint(3, 50)),
                      'kw': kw, 'tag': 'sequence'})
    rng.shuffle(cases)
    return cases


def after(case, q, ex, rec):
    if ex is not None or q is None:
        return
    if case['fn'] == 'make_sequence':
        want = int(case['kw']['mask'])
        for sym in q:
            s, err = oracle.read(sym.matrix)
            if s is None:
                rec.deviation('C06', 'sequence-symbol-unreadable', {'error': err})
                continue
            rec.count('requested_mask_checked')
            if s.mask != want:
                rec.deviation('C06', 'mask-not-as-requested', {'requested': want, 'got': s.mask, 'where': 'make_sequence'})
            else:
                rec.seen('seq|%s|%s' % (s.version, s.mask))
        return
    last = monitors.State.last
    s = last[3] if last else None
    if s is None:
        return
    if case['kw'].get('mask') is not None:
        rec.count('requested_mask_checked')
        rec.seen('%s|%s|requested' % (s.version, s.mask))
    else:
        rec.count('auto_mask_checked_micro' if isinstance(s.version, str) else 'auto_mask_checked')
        rec.seen('%s|%s|auto' % (s.version, s.mask))
        scores = last[4].get('mask_scores')
        if scores and not isinstance(s.version, str):
            srt = sorted(scores)
            if srt[1] - srt[0] <= 10:
                rec.count('near_ties_within_10_points')
            if srt[1] == srt[0]:
                # two candidates share the minimal penalty: the lowest-numbered one has to win (check_mask judged it)
                rec.count('exact_ties_for_the_minimum')
        elif scores:
            if sorted(scores)[-1] == sorted(scores)[-2]:
                rec.count('exact_ties_for_the_maximum_micro')


# ------------------------------------------------------------------ the scoring functions themselves, hooked
# An optional second monitor (nothing here is REQUIRED: a refactoring may remove or reshape these private functions,
# and then this monitor simply observes nothing). While the workload runs, `encoder.evaluate_mask` /
# `encoder.evaluate_micro_mask` are rebound to recording wrappers; every real call whose first argument is a square
# 0/1 matrix is compared with the reference penalty of *that matrix* (ISO 7.8.3; the pinned non-overlapping N3 scan of
# the open finding is accepted as well). Only if all of these real calls agree - i.e. the function demonstrably means
# "penalty of this matrix" - it is also asked about matrices the workload hardly ever produces: dark ratios exactly on
# the 5 % steps of N4 (40 % / 60 % of 25 x 25, 45 x 45 modules ...), Micro edges that are completely dark.
_HOOK = {'qr': [0, 0], 'micro': [0, 0], 'orig': {}}


def _is_binary_square(m):
    try:
        n = len(m)
        return n >= 11 and all(len(r) == n and all(v in (0, 1) for v in r) for r in m)
    except TypeError:
        return False


def _judge_qr(m, got):
    p = qr.penalty_qr(m)
    iso = sum(p)
    return got == iso or got == p[0] + p[1] + oracle.n3_nonoverlap(m) + p[3], iso


def install_score_hooks(rec):
    from segno import encoder
    for name, kind in (('evaluate_mask', 'qr'), ('evaluate_micro_mask', 'micro')):
        orig = getattr(encoder, name, None)
        if not callable(orig) or name in _HOOK['orig']:
            continue
        _HOOK['orig'][name] = orig

        def wrapper(*a, __orig=orig, __kind=kind, **k):
            res = __orig(*a, **k)
            try:
                # judged only in the calling convention the monitor understands (matrix, width, height): a call that
                # carries anything else (a limit for an early exit, a precomputed part ...) may legitimately mean something else
                if len(a) == 3 and not k and type(res) is int and _is_binary_square(a[0]) and a[1] == a[2] == len(a[0]):
                    m = [list(r) for r in a[0]]
                    if __kind == 'qr':
                        ok, want = _judge_qr(m, res)
                    else:
                        want = qr.score_micro(m)
                        ok = res == want
                    _HOOK[__kind][0] += 1
                    rec.count('internal_score_calls_compared')
                    if not ok:
                        _HOOK[__kind][1] += 1
                        rec.deviation('C06', 'internal-score-differs', {'function': __kind, 'size': len(m), 'got': res, 'reference': want,
                                                                        'dark': sum(map(sum, m)), 'where': 'real call'})
            except Exception:  # noqa: BLE001   the monitor never disturbs the call it watches
                rec.count('internal_score_monitor_errors')
            return res
        setattr(encoder, name, wrapper)


def synthetic_scoring(rec, rng, tier):
    """Asks the hooked scoring functions about boundary matrices - only after the real calls have shown what they mean."""
    from segno import encoder
    if 'evaluate_mask' in _HOOK['orig'] and _HOOK['qr'][0] >= 50 and _HOOK['qr'][1] == 0:
        fn = _HOOK['orig']['evaluate_mask']
        for size in ((21, 25, 45) if tier == 'quick' else (21, 25, 29, 45, 65, 85)):
            n = size * size
            for k in range(2, 19):
                for d in sorted({n * k // 20, -(-n * k // 20), n * k // 20 + 1, n * k // 20 - 1}):
                    if not 0 < d < n:
                        continue
                    cells = [1] * d + [0] * (n - d)
                    rng.shuffle(cells)
                    rows = tuple(bytearray(cells[r * size:(r + 1) * size]) for r in range(size))
                    try:
                        got = fn(rows, size, size)
                    except Exception:  # noqa: BLE001  other signature: nothing to compare
                        rec.count('internal_score_synthetic_not_callable')
                        return
                    ok, want = _judge_qr([list(r) for r in rows], got)
                    rec.count('internal_score_synthetic_compared')
                    if n * k % 20 == 0 and d == n * k // 20:
                        rec.count('internal_score_exact_n4_steps')
                    if not ok:
                        rec.deviation('C06', 'internal-score-differs', {'function': 'qr', 'size': size, 'got': got, 'reference': want,
                                                                        'dark': d, 'dark_ratio': '%d/%d' % (d, n), 'where': 'synthetic matrix'},
                                      case={'synthetic': True, 'size': size, 'dark': d})
    if 'evaluate_micro_mask' in _HOOK['orig'] and _HOOK['micro'][0] >= 50 and _HOOK['micro'][1] == 0:
        fn = _HOOK['orig']['evaluate_micro_mask']
        for size in (11, 13, 15, 17):
            for trial in range(40):
                rows = [bytearray(rng.choice([0, 1]) for _ in range(size)) for _ in range(size)]
                if trial % 4 == 0:
                    for i in range(1, size):
                        rows[i][size - 1] = 1           # right edge completely dark
                if trial % 4 == 1:
                    rows[size - 1][1:] = bytearray([1] * (size - 1))   # lower edge completely dark
                if trial % 8 == 2:
                    for i in range(1, size):
                        rows[i][size - 1] = 1
                    rows[size - 1][1:] = bytearray([1] * (size - 1))
                try:
                    got = fn(tuple(rows), size, size)
                except Exception:  # noqa: BLE001
                    rec.count('internal_score_synthetic_not_callable')
                    return
                want = qr.score_micro([list(r) for r in rows])
                rec.count('internal_score_synthetic_compared')
                if got != want:
                    rec.deviation('C06', 'internal-score-differs', {'function': 'micro', 'size': size, 'got': got, 'reference': want,
                                                                    'where': 'synthetic matrix'}, case={'synthetic': True, 'size': size})


def run_cases(cases, rec, tier='quick', seed='0'):
    import random as _random
    install_score_hooks(rec)
    replay_synthetic = any(c.get('synthetic') for c in cases)
    if replay_synthetic:
        # replay of a deviation found on a synthetic matrix: calibrate the hooks on some real calls first
        cases = [c for c in cases if not c.get('synthetic')] or \
            [common.mk(gen.content_for_bits('byte', 5 + i), micro=bool(i % 2) and i < 12) for i in range(40)]
    common.run_encode_cases(cases, rec, {'C06'}, after=after)
    if os.environ.get('VERIF_SHARD', '0') in ('0', '') or replay_synthetic:
        synthetic_scoring(rec, _random.Random(int(seed) * 31 + 6), tier)


def main_phase(tier, seed, rec):
    """Thorough tier: the repository's own test-suite as one more workload under the same monitor."""
    if tier == 'thorough':
        common.suite_under_monitors({'C06'}, rec)
