"""C06 - requested mask is used; automatic mask minimises the ISO penalty score."""
import random

from vmon import gen, monitors, oracle
from vmon.props import common

PROPERTY = 'C06'
RULE = ('symbols with automatic mask (random contents over versions weighted to <= 10, all four Micro versions, every QR '
        'version at least once, crafted contents) plus requested masks 0..7/0..3; from the emitted matrix alone all 8/4 '
        'candidate maskings are reconstructed (unmask with the mask of the format word, format/version areas and dark '
        'module light, re-mask through independent ISO Table 10 predicates) and scored with an independent ISO 7.8.3.1 / '
        '7.8.3.2 scorer; the chosen mask must be the lowest-numbered optimum; a requested mask must be the one in the '
        'format word and the unmasked stream must decode (zero syndromes); make_sequence with a requested mask is '
        'included; distinct = (version, chosen mask, auto/requested) combinations')
ASSUMPTIONS = common.ASSUME_QR + ['reading fixed in DESIGN 4.1: the dark module counts as light while masks are scored']
REQUIRED = ['evaluations', 'encode_observed', 'symbols_decoded', 'auto_mask_checked', 'auto_mask_checked_micro',
            'requested_mask_checked']
TIMEOUT = {'quick': 3600, 'thorough': 21600}


def gen_cases(tier, seed):
    rng = random.Random(seed * 67867967 + 6)
    cases = []
    n_auto = 1300 if tier == 'quick' else 120000
    for _ in range(n_auto):
        cls = rng.choice(['digits', 'alnum', 'ascii', 'latin1', 'bytes', 'kana'])
        content = gen.content_of(rng, cls, rng.choice([rng.randint(1, 12), rng.randint(1, 60), rng.randint(1, 150)]))
        kw = {}
        if rng.random() < 0.5:
            kw['error'] = rng.choice(['L', 'M', 'Q', 'H'])
        if rng.random() < 0.3:
            kw['micro'] = rng.choice([True, False])
        if rng.random() < 0.3:
            kw['boost_error'] = False
        cases.append(common.mk(content, tag='auto', **kw))
    # short serial numbers: many near-ties between candidates
    for i in range(300 if tier == 'quick' else 4000):
        cases.append(common.mk('SEGNO-%04d' % i, tag='serial', error=rng.choice(['L', 'M', 'Q', 'H'])))
    # every version once (QR versions > 10 are slow: one each)
    for v in oracle.ALL_VERSIONS:
        lv = oracle.levels_of(v)[0]
        n = gen.max_chars(v, lv, 'numeric')
        reps = (1 if (isinstance(v, str) or v < 7 or v > 20) else 6) if tier == 'quick' else 12
        for _ in range(reps):
            kw = {'version': v}
            if rng.random() < 0.5 and lv:
                kw['error'] = lv
            cases.append(common.mk(gen.digits(rng, rng.randint(max(1, n // 3), n)), tag='per-version', **kw))
    # crafted: all-zero / all-ones data bytes produce long runs and 1011101 patterns after masking
    for v in (1, 2, 3, 4, 5, 7):
        for fill in (b'\x00', b'\xff', b'\x5d', b'\xba', b'\x17', b'\xe8', b'\x0b', b'\xd0'):
            n = gen.max_chars(v, 'L', 'byte')
            cases.append(common.mk(fill * rng.randint(1, n), tag='crafted', version=v, error='L', mode='byte'))
    # Micro M4: contents whose right-most column is completely dark under a candidate (extreme value of the edge score)
    for c in gen.m4_full_right_edge_contents(40 if tier == 'quick' else 400, seed):
        kw = {'version': 'M4', 'boost_error': False}
        if rng.random() < 0.7:
            kw['error'] = rng.choice(['L', 'M'])
        cases.append(common.mk(c, tag='m4-full-edge', **kw))
    # requested masks
    for _ in range(400 if tier == 'quick' else 4000):
        cls = rng.choice(['digits', 'alnum', 'ascii', 'bytes'])
        content = gen.content_of(rng, cls, rng.randint(1, 40))
        micro = rng.random() < 0.3
        kw = {'mask': rng.choice([rng.randint(0, 3 if micro else 7), str(rng.randint(0, 3 if micro else 7))])}
        if micro:
            kw['micro'] = True
        else:
            kw['micro'] = False
        cases.append(common.mk(content, tag='requested', **kw))
    for _ in range(100 if tier == 'quick' else 1000):
        kw = {'mask': rng.randint(0, 7)}
        if rng.random() < 0.6:
            kw['version'] = rng.randint(1, 7)
        else:
            kw['symbol_count'] = rng.randint(1, 3)
        cases.append({'fn': 'make_sequence', 'content': gen.content_for_bits(rng.choice(['numeric', 'alphanumeric', 'byte']), rng.randint(3, 50)),
                      'kw': kw, 'tag': 'sequence'})
    rng.shuffle(cases)
    return cases


def after(case, q, ex, rec):
    if ex is not None or q is None:
        return
    if case['fn'] == 'make_sequence':
        want = int(case['kw']['mask'])
        for sym in q:
            s, err = oracle.read(sym.matrix)
            if s is None:
                rec.deviation('C06', 'sequence-symbol-unreadable', {'error': err})
                continue
            rec.count('requested_mask_checked')
            if s.mask != want:
                rec.deviation('C06', 'mask-not-as-requested', {'requested': want, 'got': s.mask, 'where': 'make_sequence'})
            else:
                rec.seen('seq|%s|%s' % (s.version, s.mask))
        return
    last = monitors.State.last
    s = last[3] if last else None
    if s is None:
        return
    if case['kw'].get('mask') is not None:
        rec.count('requested_mask_checked')
        rec.seen('%s|%s|requested' % (s.version, s.mask))
    else:
        rec.count('auto_mask_checked_micro' if isinstance(s.version, str) else 'auto_mask_checked')
        rec.seen('%s|%s|auto' % (s.version, s.mask))
        scores = last[4].get('mask_scores')
        if scores and not isinstance(s.version, str):
            srt = sorted(scores)
            if srt[1] - srt[0] <= 10:
                rec.count('near_ties_within_10_points')


def run_cases(cases, rec, tier='quick', seed='0'):
    common.run_encode_cases(cases, rec, {'C06'}, after=after)


def main_phase(tier, seed, rec):
    """Thorough tier: the repository's own test-suite as one more workload under the same monitor."""
    if tier == 'thorough':
        common.suite_under_monitors({'C06'}, rec)
