"""C09 - raster and text outputs depict exactly the symbol with its quiet zone."""
import io
import random

from vmon import core, gen, monitors, oracle, outoracle
from vmon.props import common

PROPERTY = 'C09'
RULE = ('renders of symbols of all 44 sizes (quick: random subset per run, every kind at >= 8 sizes) x kinds {png, pbm P4/P1, '
        'pam, ppm, xbm, xpm, txt, ans, compact terminal} x scale {1,2,3,5,7, 2.9, 1.5, 3.0} x border {None,0,1,3,5} x colour '
        'pairs (named, #rgb, #rrggbb, #rrggbbaa, tuples, None) x PNG dpi/compresslevel; each output is parsed by an '
        'independent format reader (container well-formedness: signature, chunk order and CRCs, zlib stream length, filter '
        'types, palette/tRNS, Netpbm headers and raster lengths, XBM/XPM structure) and every pixel / cell is compared with '
        'the grid predicted from qr.matrix; scale < 1 must be refused; distinct = (kind, size, scale, border, colour classes)')
ASSUMPTIONS = ['refmodel/raster.py (independent readers), refmodel/colors.py (independent colour parser, 49 CSS names cross-checked once)',
               'zlib and struct of CPython',
               'PAM/PPM/XPM colours with alpha are outside the documented domain and not generated',
               'held = held on the renders listed here']
REQUIRED = ['cases_under_python_O', 'evaluations', 'renders_checked', 'kind:png', 'kind:pbm', 'kind:pam', 'kind:ppm', 'kind:xbm', 'kind:xpm', 'kind:txt',
            'kind:ans', 'kind:compact', 'scale_lt_1_refused', 'png_depth:1', 'png_transparent']
TIMEOUT = {'quick': 3600, 'thorough': 21600}
OPT_SLICE = {'quick': 120, 'thorough': 1500}     # cases re-run by one more worker under python -O (core.run_sharded)

NAMED = ['black', 'white', 'red', 'blue', 'yellow', 'navy', 'gold', 'Olive', 'DARKRED', 'steelblue', 'grey', 'aliceblue',
         'antiquewhite', 'aqua', 'aquamarine', 'azure', 'yellowgreen', 'whitesmoke']
HEX = ['#000', '#fff', '#abc', '#123456', '#FFFFFF', '#000000', '#0f0', '#fe12dc', '#010203', '#f0f8ff', '#faebd7', '#aabbcd', '#112234']
HEXA = ['#12345680', '#abcd', '#00000010', '#ffffff00', '#11223344', '#000f', '#abcdefff', '#0cc80701', '#ffffff01', '#00000001', '#1230']
TUP = [(1, 2, 3), (255, 255, 255), (0, 0, 0), (200, 100, 50), (18, 52, 86)]
TUPA = [(1, 2, 3, 4), (10, 20, 30, 128), (0, 0, 0, 0), (255, 255, 255, 254), (9, 8, 7, 255), (12, 200, 7, 1), (0, 0, 0, 1), (255, 255, 255, 1),
        (5, 6, 7, 0.5), (5, 6, 7, 1.0), (5, 6, 7, 0.0), (200, 0, 0, 2)]


def rnd_color(rng, alpha=False, none=False):
    pools = [NAMED, HEX, TUP]
    if alpha:
        pools += [HEXA, TUPA]
    c = rng.choice(rng.choice(pools))
    if none and rng.random() < 0.2:
        return None
    return c


def gen_cases(tier, seed):
    rng = random.Random(seed * 160481183 + 9)
    n = 1500 if tier == 'quick' else 30000
    kinds = ['png', 'png', 'png', 'pbm', 'pbm1', 'pam', 'pam', 'ppm', 'xbm', 'xpm', 'txt', 'ans', 'compact']
    cases = []
    for i in range(n):
        kind = kinds[i % len(kinds)]
        v = rng.choice(oracle.ALL_VERSIONS if (tier == 'thorough' or rng.random() < 0.3) else oracle.MICRO + [1, 2, 3, 4, 5, 6, 7, 10])
        kw = {}
        if kind not in ('txt', 'ans', 'compact'):
            r = rng.random()
            if r < 0.7:
                kw['scale'] = rng.choice([1, 2, 3, 4, 5, 7, 8, 8, 16])
            elif r < 0.9:
                kw['scale'] = rng.choice([2.9, 1.5, 3.0, 1.999, 4.2])
            if not isinstance(v, str) and v > 12 and kw.get('scale', 1) > 3:
                kw['scale'] = 2
            if not isinstance(v, str) and v > 5 and kw.get('scale', 1) > 8:
                kw['scale'] = 8
        if rng.random() < 0.7:
            kw['border'] = rng.choice([None, 0, 1, 2, 3, 5, 7])
        if kind == 'png':
            r = rng.random()
            if r < 0.75:
                kw['dark'] = rnd_color(rng, alpha=True, none=True)
                kw['light'] = rnd_color(rng, alpha=True, none=True)
            if rng.random() < 0.2:
                kw['dpi'] = rng.choice([72, 150, 300, 600, 96.0])
            if rng.random() < 0.3:
                kw['compresslevel'] = rng.randint(0, 9)
        elif kind == 'pam':
            r = rng.random()
            if r < 0.15:
                # a translucent dark colour on a transparent background (RGB_ALPHA, the alpha sample as requested),
                # incl. translucent black / white
                kw['dark'] = rng.choice(['#00000080', (0, 0, 0, 64), '#FFFFFFC0', (255, 255, 255, 128), '#0000ff80',
                                         (12, 200, 7, 1), '#abcd', (0, 0, 0, 254), (0, 0, 0, 1), (255, 255, 255, 1), '#00000001', '#ffffff01'])
                kw['light'] = None
            elif r < 0.8:
                kw['dark'] = rnd_color(rng)
                kw['light'] = rnd_color(rng, none=True)
        elif kind == 'ppm':
            if rng.random() < 0.7:
                kw['dark'] = rnd_color(rng)
                kw['light'] = rnd_color(rng)
        elif kind == 'xpm':
            if rng.random() < 0.7:
                kw['dark'] = rnd_color(rng, none=True)
                kw['light'] = rnd_color(rng, none=True)
            if rng.random() < 0.2:
                kw['name'] = 'qr_code'
        elif kind == 'xbm':
            if rng.random() < 0.2:
                kw['name'] = 'symbol'
        elif kind == 'txt':
            if rng.random() < 0.4:
                kw['dark'], kw['light'] = rng.choice([('X', '_'), ('#', ' '), ('1', '0'), ('@', '.'), ('0', '1'), ('0', '1'), (' ', '1'), ('1', '1x'[1]), ('a', '0')])
        cases.append({'kind': kind, 'version': v, 'seed': rng.randrange(1 << 30), 'kw': kw})
    # scale < 1 must be refused by every raster kind
    for kind in ('png', 'pbm', 'pam', 'ppm', 'xbm', 'xpm'):
        for s in (0.5, 0.99, 0.1):
            cases.append({'kind': kind, 'version': 1, 'seed': 1, 'kw': {'scale': s}, 'expect': 'refuse'})
        # scales that are exact non-float numbers, a hair below an integer: truncated like every non-integer scale (a
        # detour through float would round them up)
        for s in ({'$frac': [2 ** 60 - 1, 2 ** 59]}, {'$dec': '2.99999999999999999999'}, {'$frac': [5, 2]}, {'$dec': '3.5'}, {'$frac': [7, 1]}):
            cases.append({'kind': kind, 'version': rng.choice([1, 'M2', 3]), 'seed': rng.randrange(1 << 30), 'kw': {'scale': s, 'border': rng.choice([0, 1, None])}})
        for s in ({'$dec': '0.99999999999999999999'}, {'$frac': [10 ** 20 - 1, 10 ** 20]}):
            cases.append({'kind': kind, 'version': 1, 'seed': 1, 'kw': {'scale': s}, 'expect': 'refuse'})
    rng.shuffle(cases)
    return cases


def make_symbol(case):
    import segno
    rng = random.Random(case['seed'])
    v = case['version']
    n = gen.max_chars(v, oracle.levels_of(v)[0], 'numeric')
    return segno.make(gen.digits(rng, rng.randint(1, n)), version=v)


def render(q, case):
    kind, kw = case['kind'], dict(case['kw'])
    if kind == 'compact':
        out = io.StringIO()
        q.terminal(out=out, compact=True, **kw)
        return out.getvalue()
    if kind == 'ans' and case['seed'] % 2:
        out = io.StringIO()
        q.terminal(out=out, **kw)
        return out.getvalue()
    if kind == 'pbm1':
        kw['plain'] = True
        kind = 'pbm'
    out = io.StringIO() if kind in outoracle.TEXT_KINDS else io.BytesIO()
    common.earlier_saves(q, case, core.REC)
    q.save(out, kind=kind, **kw)
    return out.getvalue()


def run_cases(cases, rec, tier='quick', seed='0'):
    monitors.start_reach()
    from vmon.props.c11 import real_number
    for case in cases:
        rec.case = case
        rec.count('evaluations')
        q = make_symbol(case)
        kind = case['kind']
        if any(isinstance(v, dict) for v in case['kw'].values()):
            case = dict(case, kw={k: real_number(v) for k, v in case['kw'].items()})     # Fraction / Decimal stand-ins
            rec.count('exact_non_float_scales')
        try:
            data = render(q, case)
        except ValueError as ex:
            if case.get('expect') == 'refuse':
                rec.count('scale_lt_1_refused')
            else:
                rec.deviation('C09', 'valid-render-refused', {'error': str(ex)[:200]})
            continue
        except Exception as ex:  # noqa: BLE001
            rec.deviation('C09', 'render-raised', {'type': type(ex).__name__, 'error': str(ex)[:200]})
            continue
        if case.get('expect') == 'refuse':
            rec.deviation('C09', 'scale-below-1-accepted', {'scale': case['kw']['scale']})
            continue
        base = 'pbm' if kind == 'pbm1' else kind
        if base in ('txt', 'ans', 'compact'):
            devs = outoracle.check_text(base, data, q.matrix, case['kw'])
            img = None
        else:
            devs, img = outoracle.check_raster(base, data, q.matrix, case['kw'])
        rec.count('renders_checked')
        rec.count('kind:%s' % base)
        if img is not None and base == 'png':
            rec.count('png_depth:%d' % img['depth'])
            if any(px[3] == 0 for px in img['px'][0]) or any(px[3] == 0 for px in img['px'][len(img['px']) // 2]):
                rec.count('png_transparent')
            rec.count('png_width_bits_mod8:%d' % ((img['w'] * img['depth']) % 8))
        for k, detail in devs:
            rec.deviation('C09', k, detail)
        kw = case['kw']
        cls = lambda c: 'none' if c is None else ('tuple%d' % len(c) if isinstance(c, tuple) else ('hex%d' % len(c) if c.startswith('#') else 'name'))  # noqa: E731
        rec.seen('%s|%s|%s|%s|%s|%s' % (kind, len(q.matrix), kw.get('scale', 1), kw.get('border', 'd'),
                                       cls(kw['dark']) if 'dark' in kw else '-', cls(kw['light']) if 'light' in kw else '-'))
        rec.sample({'kind': kind, 'version': case['version'], 'kw': core.short(kw, 120), 'bytes': len(data)})
    monitors.stop_reach(rec)
    rec.case = None
