"""C03 - Reed-Solomon block layout and correctability (fault injection on the output)."""
import random

from refmodel import qr
from vmon import gen, monitors, oracle
from vmon.props import common

PROPERTY = 'C03'
RULE = ('all 168 (version, level) block layouts x contents x fault patterns: the emitted matrix is de-interleaved with '
        'the independent ISO Table 9 layout and every block must have zero syndromes; then up to floor(ec/2) codewords '
        'per block (uniform positions / bursts along the placement order / data part only / ec part only / maximum '
        'weight) are XOR-corrupted in the *module matrix* and a Berlekamp-Massey/Chien/Forney decoder must restore the '
        'exact data codewords and payload; faults are applied to the output, never to the encoder; distinct = '
        '(version, level, pattern kind) combinations with at least one corrupted codeword')
ASSUMPTIONS = common.ASSUME_QR + ['the bound floor(ec/2) itself is Reed-Solomon theory, error patterns are sampled']
REQUIRED = ['cases_under_python_O', 'evaluations', 'encode_observed', 'symbols_decoded', 'fault_trials', 'codewords_corrupted',
            'all_168_layouts_observed']
EXHAUSTIVE = {'quick': '(version, level) block layouts: 168 of 168', 'thorough': '(version, level) block layouts: 168 of 168'}
TIMEOUT = {'quick': 3600, 'thorough': 21600}
OPT_SLICE = {'quick': 120, 'thorough': 1500}     # cases re-run by one more worker under python -O (core.run_sharded)
PATTERNS = ['uniform', 'burst', 'data-only', 'ec-only', 'max-weight', 'single']


def layouts():
    return [(v, lv) for v in oracle.ALL_VERSIONS for lv in oracle.levels_of(v)]


def gen_cases(tier, seed):
    rng = random.Random(seed * 15485863 + 3)
    ncontent, npat = (2, 3) if tier == 'quick' else (8, 30)
    cases = []
    for (v, lv) in layouts():
        for i in range(ncontent):
            modes = [x for x in ('numeric', 'alphanumeric', 'byte', 'kanji') if oracle.mode_available(v, x)]
            mode = rng.choice(modes)
            n = gen.max_chars(v, lv, mode) or 1
            cnt = n if i == 0 else (rng.choice([1, 1, 2]) if (isinstance(v, str) and i == 1) else rng.randint(1, n))
            content = gen.content_for_bits(mode, cnt)
            kw = {'version': v, 'boost_error': False}
            if lv:
                kw['error'] = lv
            pats = ['max-weight'] + [rng.choice(PATTERNS) for _ in range(npat - 1)]
            if tier == 'thorough' and (isinstance(v, str) or v <= 3):
                pats.append('all-single')
            cases.append({'fn': 'make', 'content': content, 'kw': kw, 'patterns': pats,
                          'fseed': rng.randrange(1 << 30), 'layout': '%s|%s' % (v, lv)})
    # data that looks like padding: runs of EC / 11 / 00 bytes in multi-block symbols that also contain real padding blocks
    for (v, lv) in layouts():
        if isinstance(v, str) or len(qr.block_layout(v, lv)) < 3:
            continue
        if tier == 'quick' and rng.random() < 0.75:
            continue
        n = gen.max_chars(v, lv, 'byte')
        lay = qr.block_layout(v, lv)
        d0 = lay[0][1]
        for trial in range(2 if tier == 'quick' else 6):
            body = bytearray()
            while len(body) < min(n // 2, 3 * d0):
                body += bytes([rng.choice([0x11, 0xEC, 0x11, 0xEC, 0x00, 0x41])]) * rng.choice([1, 2, d0 - 1, d0, d0 + 1, 2 * d0])
            content = bytes(body[:max(1, min(n // 2, 3 * d0))])
            cases.append({'fn': 'make', 'content': content, 'kw': {'version': v, 'error': lv, 'boost_error': False, 'mode': 'byte'},
                          'patterns': ['max-weight', 'uniform'], 'fseed': rng.randrange(1 << 30), 'layout': '%s|%s' % (v, lv)})
    # one byte value repeated until several blocks consist of nothing else (after the 4-bit shift of the byte-mode
    # header every data codeword of such a block is the same value - all 256 of them, and the 16 x 16 nibble pairs)
    for b in range(256):
        v, lv = rng.choice([(5, 'Q'), (5, 'H'), (7, 'M'), (8, 'L'), (10, 'L'), (13, 'Q')])
        n = gen.max_chars(v, lv, 'byte')
        k = rng.choice([n, n - 1, n * 3 // 4])
        cases.append({'fn': 'make', 'content': bytes([b]) * k, 'kw': {'version': v, 'error': lv, 'boost_error': False, 'mode': 'byte'},
                      'patterns': ['uniform'], 'fseed': rng.randrange(1 << 30), 'layout': '%s|%s' % (v, lv)})
        if tier == 'thorough' or b % 4 == 0:
            # two alternating bytes x, y with equal nibbles crosswise: every codeword is one value as well
            hi, lo = b >> 4, b & 15
            pair = bytes([(lo << 4) | hi, b])
            cases.append({'fn': 'make', 'content': pair * (k // 2), 'kw': {'version': v, 'error': lv, 'boost_error': False, 'mode': 'byte'},
                          'patterns': ['uniform'], 'fseed': rng.randrange(1 << 30), 'layout': '%s|%s' % (v, lv)})
    # list content whose parts share a mode (they are merged into one segment), sized around the capacities of the
    # Micro versions - M1 / M3 end in a 4-bit codeword, so any surplus bit lands in the nibble that is not placed
    for _ in range(120 if tier == 'quick' else 3000):
        total = rng.randint(3, 40)
        digits = gen.digits(rng, total)
        cuts = sorted(rng.sample(range(1, total), rng.randint(1, min(3, total - 1))))
        parts = [digits[a:b] for a, b in zip([0] + cuts, cuts + [total])]
        if rng.random() < 0.3:
            parts = [p_.replace('0', 'A').replace('1', 'B') + 'Z' for p_ in parts]      # alphanumeric parts
        fn = rng.choice(['make', 'make_micro', 'make_micro', 'make_qr'])
        kw = {} if rng.random() < 0.6 else {'error': rng.choice(['L', 'M'])}
        cases.append({'fn': fn, 'content': parts, 'kw': kw, 'patterns': ['uniform'], 'fseed': rng.randrange(1 << 30),
                      'layout': 'parts'})
    rng.shuffle(cases)
    return cases


def stream_index(layout):
    """Interleaved stream order -> (block, index in block)."""
    order = []
    maxd = max(d for _, d in layout)
    for i in range(maxd):
        for b, (t, d) in enumerate(layout):
            if i < d:
                order.append((b, i))
    maxe = max(t - d for t, d in layout)
    for i in range(maxe):
        for b, (t, d) in enumerate(layout):
            if i < t - d:
                order.append((b, d + i))
    return order


def codeword_bits(s):
    """stream index k -> (first bit offset, number of bits present)."""
    ndata = sum(d for _, d in s.layout)
    half = s.version in ('M1', 'M3')
    out = []
    p = 0
    for k in range(len(s.codewords)):
        nb = 4 if (half and k == ndata - 1) else 8
        out.append((p, nb))
        p += nb
    return out


def choose(rng, s, kind):
    """-> list of stream indices to corrupt, at most floor(ec/2) per block."""
    sidx = stream_index(s.layout)
    per_block = {}
    for k, (b, i) in enumerate(sidx):
        per_block.setdefault(b, []).append((k, i))
    chosen = []
    for b, (t, d) in enumerate(s.layout):
        cap = (t - d) // 2
        items = per_block[b]
        if kind == 'max-weight':
            n = cap
            pool = items
        elif kind == 'single':
            n = min(1, cap)
            pool = items
        elif kind == 'data-only':
            n = rng.randint(0, cap)
            pool = [x for x in items if x[1] < d]
        elif kind == 'ec-only':
            n = rng.randint(0, cap)
            pool = [x for x in items if x[1] >= d]
        elif kind == 'burst':
            n = rng.randint(1, cap) if cap else 0
            start = rng.randrange(len(items))
            pool = None
            chosen.extend(k for k, _ in (items[start:] + items[:start])[:n])
            continue
        else:
            n = rng.randint(0, cap)
            pool = items
        n = min(n, len(pool))
        chosen.extend(k for k, _ in rng.sample(pool, n))
    return chosen


def corrupt_and_decode(matrix, s, ks, rng, rec, kind):
    m = [list(r) for r in matrix]
    cb = codeword_bits(s)
    for k in ks:
        off, nb = cb[k]
        x = rng.randrange(1, 1 << nb)
        for j in range(nb):
            if (x >> (nb - 1 - j)) & 1:
                r, c = s.order[off + j]
                m[r][c] ^= 1
    rec.count('fault_trials')
    rec.count('codewords_corrupted', len(ks))
    try:
        s2 = qr.read_symbol(m, correct=True)
    except qr.DecodeError as ex:
        rec.deviation('C03', 'not-corrected', {'error': str(ex), 'kind': kind, 'corrupted': len(ks),
                                               'version': s.version, 'level': s.level, 'stream_indices': ks[:20]})
        return
    rec.count('codewords_corrected', s2.corrected_errors)
    if s2.data_codewords != s.data_codewords or s2.payload != s.payload:
        rec.deviation('C03', 'wrong-correction', {'kind': kind, 'corrupted': len(ks), 'version': s.version,
                                                  'level': s.level})
    elif ks:
        rec.seen('%s|%s|%s' % (s.version, s.level, kind))


def after(case, q, ex, rec):
    if ex is not None:
        if case.get('layout') == 'parts' and isinstance(ex, ValueError):
            rec.count('part_lists_refused')      # too large for the factory that was asked: not a layout case
            return
        rec.deviation('C03', 'layout-case-refused', {'error': repr(ex)})
        return
    last = monitors.State.last
    s = last[3] if last else None
    if s is None:
        return
    rec.extra.setdefault('layouts', []).append('%s|%s' % (s.version, s.level))
    if s.parse_error is not None or not all(s.block_syndromes_ok):
        return  # already reported by the shared post-condition
    rng = random.Random(case['fseed'])
    for kind in case['patterns']:
        if kind == 'all-single':
            for k in range(len(s.codewords)):
                if all((t - d) // 2 >= 1 for t, d in s.layout):
                    corrupt_and_decode(q.matrix, s, [k], rng, rec, 'single')
        else:
            corrupt_and_decode(q.matrix, s, choose(rng, s, kind), rng, rec, kind)


def run_cases(cases, rec, tier='quick', seed='0'):
    common.run_encode_cases(cases, rec, {'C03'}, after=after)


def post_merge(m, tier):
    t = set(m['extra'].pop('layouts', []))
    if len(t) == 168:
        m['counters']['all_168_layouts_observed'] = 1
    return {'distinct_layouts_observed': len(t), 'layouts_total': 168}


def main_phase(tier, seed, rec):
    """Thorough tier: the repository's own test-suite as one more workload under the same monitor."""
    if tier == 'thorough':
        common.suite_under_monitors({'C03'}, rec)
