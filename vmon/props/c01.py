"""C01 - every symbol decodes back to exactly the content that was given."""
import random

from vmon import gen
from vmon.props import common

PROPERTY = 'C01'
RULE = ('class-stratified random contents x random option vectors, all 256 one-byte contents, Shift JIS lead + '
        'arbitrary trail pairs, multi-part lists, one content per mode at every version; every symbol accepted by '
        'segno.make/make_qr/make_micro is decoded by the reference decoder inside an icontract post-condition on '
        'encoder.encode; distinct = distinct (version, level, mask, segment modes) tuples of decoded symbols')
ASSUMPTIONS = common.ASSUME_QR
REQUIRED = ['cases_under_python_O', 'evaluations', 'encode_observed', 'symbols_decoded', 'mode:qr:numeric', 'mode:qr:alphanumeric',
            'mode:qr:byte', 'mode:qr:kanji', 'mode:qr:hanzi', 'mode:micro:numeric', 'mode:micro:byte',
            'mode:micro:kanji', 'mode:micro:alphanumeric', 'mode:qr:multi']
TIMEOUT = {'quick': 3600, 'thorough': 21600}
OPT_SLICE = {'quick': 120, 'thorough': 1500}     # cases re-run by one more worker under python -O (core.run_sharded)


def core_cases():
    """Fixed core that reaches every deciding monitor (DESIGN.md section 2)."""
    mk = common.mk
    out = [mk('12345'), mk('HELLO WORLD'), mk('Hello'), mk('点茗'), mk('汉字', mode='hanzi'),
           mk('123', fn='make_qr'), mk('AB', fn='make_qr'), mk('abc', fn='make_qr'), mk('点茗荷', fn='make_qr'),
           mk(['123', 'abc', 'ABC']), mk(['1', '2']), mk(['A', 'B'], fn='make_qr'),
           mk('Ünicode ☃', eci=True), mk('Ünicode ☃'), mk('Märchen', encoding='utf-8', eci=True),
           mk('Märchen', encoding='latin1', eci=True), mk('Märchen', encoding='iso-8859-15', eci=True),
           mk('abc', encoding='cp437', eci=True), mk('Привет', encoding='cp1251', eci=True),
           mk('Привет', encoding='iso-8859-5', eci=True), mk('한국어', encoding='euc_kr', eci=True),
           mk(b'\x82\x10'), mk(b'\x82\x40'), mk(b'\xe0\x7f'), mk(b'\xeb\xc0'), mk(0), mk(-17), mk(''),
           mk([('Märchen', None, 'utf-8'), ('Füße', None, 'cp1252'), 'abc'], eci=True)]
    # every codec of the independent ECI table, with text that the codec can represent
    from vmon import oracle
    for codec in sorted(oracle.ECI_NUMBERS):
        try:
            text = bytes(range(0xa1, 0xff)).decode(codec, errors='ignore')
            text = ''.join(ch for ch in text if ch.isprintable())[:6] or 'abc'
            text.encode(codec)
        except (UnicodeError, LookupError):
            text = 'abc'
        out.append(mk(text + ' x', encoding=codec, eci=True, tag='eci-table'))
        out.append(mk(text + ' x', encoding=codec, tag='eci-table'))
    return out


def gen_cases(tier, seed):
    rng = random.Random(seed * 7919 + 1)
    cases = core_cases()
    for b in range(256):
        cases.append(common.mk(bytes([b]), tag='one-byte'))
    n_rand, n_pairs = (2400, 700) if tier == 'quick' else (240000, 30000)
    cases += common.random_cases(rng, n_rand, heavy=(tier == 'thorough'))
    for _ in range(n_pairs):
        cases.append(common.mk(gen.lead_trail(rng, rng.randint(1, 3)), tag='lead-trail',
                               **({} if rng.random() < 0.7 else {'mode': rng.choice(['kanji', None, 'byte'])})))
    # one content per mode at every version
    from vmon import oracle
    for v in oracle.ALL_VERSIONS:
        for m in oracle.MODES:
            if oracle.mode_available(v, m):
                lv = oracle.levels_of(v)[-1 if tier == 'quick' else rng.randrange(len(oracle.levels_of(v)))]
                n = gen.max_chars(v, lv, m)
                if n:
                    # the exact capacity (a truncating encoder is seen here) and a random shorter length
                    for k in (n, n + 1, rng.randint(max(1, n // 2), n)):
                        kw = {'version': v, 'boost_error': False}
                        if lv:
                            kw['error'] = lv
                        if m == 'hanzi':
                            kw['mode'] = 'hanzi'
                        cases.append(common.mk(gen.content_for_bits(m, k), tag='per-version', **kw))
                        if k != n or rng.random() < 0.5:
                            # the same content with the version left to the library (one character above the
                            # capacity: the next version has to take all of it)
                            kw2 = {kk: vv for kk, vv in kw.items() if kk != 'version'}
                            kw2['micro'] = isinstance(v, str)
                            cases.append(common.mk(gen.content_for_bits(m, k), tag='per-version-auto',
                                                   fn='make', **kw2))
    cases += common.big_int_cases(rng, tier)
    cases += common.eci_boundary_cases(rng, tier)
    if tier == 'thorough':
        # all 65,536 two-byte strings with defaults
        for hi in range(256):
            for lo in range(256):
                cases.append(common.mk(bytes((hi, lo)), tag='two-byte'))
        for n in (7089, 4296, 2953, 1817, 1, 2, 3):
            cases.append(common.mk(gen.content_for_bits('numeric', n), error='L'))
        cases.append(common.mk(gen.content_for_bits('alphanumeric', 4296), error='L'))
        cases.append(common.mk(gen.content_for_bits('byte', 2953), error='L'))
        cases.append(common.mk(gen.content_for_bits('kanji', 1817), error='L'))
    rng.shuffle(cases)
    return cases


def run_cases(cases, rec, tier='quick', seed='0'):
    common.run_encode_cases(cases, rec, {'C01'})


def main_phase(tier, seed, rec):
    """Thorough tier: the repository's own test-suite as one more workload under the same monitor."""
    if tier == 'thorough':
        common.suite_under_monitors({'C01'}, rec)
