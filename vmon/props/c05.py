"""C05 - error level never below the request; boosting never changes the version."""
import random

from vmon import gen, monitors, oracle
from vmon.props import common

PROPERTY = 'C05'
RULE = ('the C04 capacity boundaries (exact-fit and one-less lengths for every level of every version) x requested level '
        '{None, L, M, Q, H} x boost {on, off} x micro; the level is read from the format information of the emitted '
        'matrix, the expected boosted level is recomputed from the decoded bit count and the independent capacity '
        'table; the monitor issues the paired call (boost off) itself and compares versions; also make_sequence with '
        'boost off; distinct = (version, level in matrix, requested level, boost) combinations observed')
ASSUMPTIONS = common.ASSUME_QR
REQUIRED = ['cases_under_python_O', 'evaluations', 'encode_observed', 'symbols_decoded', 'paired_calls', 'boost_raised_level', 'boost_off_observed',
            'sequence_symbols_boost_checked', 'sequence_symbols_boost_raised']
TIMEOUT = {'quick': 3600, 'thorough': 21600}
OPT_SLICE = {'quick': 120, 'thorough': 1500}     # cases re-run by one more worker under python -O (core.run_sharded)


def gen_cases(tier, seed):
    rng = random.Random(seed * 49979687 + 5)
    cases = []
    for (v, lv, mode, n) in gen.boundaries(('numeric', 'alphanumeric', 'byte', 'kanji')):
        if tier == 'quick' and not isinstance(v, str) and v > 12 and rng.random() < 0.7:
            continue
        for cnt in (n, n - 1, n + 1):
            if cnt < 1:
                continue
            content = gen.content_for_bits(mode, cnt)
            reqs = [None, 'L', 'M', 'Q', 'H'] if tier == 'thorough' else [None, lv or 'L', rng.choice(['L', 'M', 'Q', 'H'])]
            for req in reqs:
                kw = {}
                if req:
                    kw['error'] = req
                if rng.random() < 0.5:
                    kw['version'] = v
                elif rng.random() < 0.3:
                    kw['micro'] = rng.choice([True, False])
                cases.append(common.mk(content, tag='boost', **kw))
                if rng.random() < 0.35:
                    cases.append(common.mk(content, tag='noboost', boost_error=False, **kw))
    # always (no sampling): the versions around the steps of the character count indicator (10, 27) and the largest
    # one, version left to the library, every mode and level - one character more has to move on to the next
    # version / a lower level
    for (v, lv, mode, n) in gen.boundaries(('numeric', 'alphanumeric', 'byte', 'kanji')):
        if v in (9, 10, 11, 26, 27, 28, 40) or (not isinstance(v, str) and v >= 10 and mode != 'byte'):
            # (beyond the steps themselves: a length computed with the indicator size of the previous range is 2 bits
            # short, which matters only where one more character exceeds the capacity by 1-2 bits - some version / level
            # / mode combinations of each range, so all of them are kept)
            for cnt in ((n, n + 1) if v in (9, 10, 11, 26, 27, 28, 40) else (n + 1,)):
                cases.append(common.mk(gen.content_for_bits(mode, cnt), tag='boost-cci-step', error=lv, micro=False))
                if lv == 'L':
                    cases.append(common.mk(gen.content_for_bits(mode, cnt), tag='boost-cci-step', micro=False))
    # ECI: the 12 bit header belongs to the content the boosted level has to hold
    for (v, lv, mode, n) in gen.boundaries(('byte',)):
        if isinstance(v, str) or (tier == 'quick' and v > 6):
            continue
        for d in (0, -1, 1, -2, 2, 3):
            k = n - 2 + d      # 12 header bits = 1.5 bytes: the boundary with the header lies 1-2 bytes below n (n itself included)
            if k < 1:
                continue
            kw = {'eci': True, 'encoding': rng.choice(['utf-8', 'utf-8', 'latin1', 'ISO-8859-1', 'L1', 'iso-8859-1', 'cp1252', 'koi8-r', 'cp850'])}
            if rng.random() < 0.5:
                kw['version'] = v
            cases.append(common.mk('a' * k, tag='boost-eci', **kw))
    for (v, lv, mode, n) in gen.boundaries(('numeric', 'alphanumeric', 'byte', 'kanji')):
        if isinstance(v, str) and lv:
            for cnt in (n, n - 1, n + 1):
                for req in ('L', 'M', 'Q'):
                    if cnt > 0:
                        cases.append(common.mk(gen.content_for_bits(mode, cnt), tag='boost-micro', error=req,
                                               **({'version': v} if rng.random() < 0.5 else {'micro': True})))
    n_seq = 120 if tier == 'quick' else 1500
    for _ in range(n_seq):
        mode = rng.choice(['numeric', 'alphanumeric', 'byte'])
        content = gen.content_for_bits(mode, rng.randint(1, 60))
        kw = {'boost_error': rng.choice([True, False])}
        if rng.random() < 0.6:
            kw['error'] = rng.choice(['L', 'M', 'Q', 'H'])
        if rng.random() < 0.6:
            kw['version'] = rng.randint(1, 6)
        else:
            kw['symbol_count'] = rng.randint(1, 4)
        cases.append({'fn': 'make_sequence', 'content': content, 'kw': kw, 'tag': 'sequence'})
    # sequences whose chunks have equal character counts but unequal bit lengths (multi-byte characters at one
    # end), so that the symbols of one sequence are boosted to different levels
    for _ in range(n_seq):
        k = rng.randint(2, 5)
        wide = ''.join(rng.choice('€☃あ漢𝄞') for _ in range(rng.randint(1, 6)))
        narrow = ''.join(rng.choice('abcxyz12 ') for _ in range(rng.randint(1, 40)))
        content = rng.choice([wide + narrow, narrow + wide, wide + narrow + wide])
        kw = {'symbol_count': k}
        if rng.random() < 0.5:
            kw['error'] = rng.choice(['L', 'M', 'Q'])
        if rng.random() < 0.3:
            kw['encoding'] = 'utf-8'
        if len(content) >= k:
            cases.append({'fn': 'make_sequence', 'content': content, 'kw': kw, 'tag': 'sequence-uneven'})
    for _ in range(n_seq):
        parts = [gen.content_for_bits(rng.choice(['numeric', 'alphanumeric', 'byte']), rng.randint(1, 15)) for _ in range(2)]
        cases.append(common.mk(parts, tag='multi', **({'error': rng.choice(['L', 'M', 'Q'])} if rng.random() < 0.5 else {})))
    rng.shuffle(cases)
    return cases


def after(case, q, ex, rec):
    import segno
    if ex is not None or q is None:
        return
    if case['fn'] == 'make_sequence':
        # every symbol of the sequence: level from the matrix vs request / boost flag
        a = oracle.normalize_args(case['kw'])
        for sym in q:
            s, err = oracle.read(sym.matrix)
            if s is None:
                continue
            rec.count('sequence_symbols')
            requested = a['error_name'] or 'L'
            if oracle.LEVELS.index(s.level) < oracle.LEVELS.index(requested):
                rec.deviation('C05', 'level-below-request', {'requested': requested, 'got': s.level, 'where': 'make_sequence'})
            elif case['kw'].get('boost_error') is False and s.level != requested:
                rec.deviation('C05', 'level-changed-without-boost', {'requested': requested, 'got': s.level,
                                                                      'where': 'make_sequence'})
            else:
                rec.seen('seq|%s|%s|%s|%s' % (s.version, s.level, requested, case['kw'].get('boost_error')))
            if case['kw'].get('boost_error', True) and s.parse_error is None and \
                    s.end_of_segments <= oracle.capacity(s.version, s.level):
                # boosting is done per symbol: the highest level of this version that still holds this
                # symbol's own bit stream (Structured Append header included)
                best = requested
                for lv in oracle.levels_of(s.version):
                    if oracle.LEVELS.index(lv) > oracle.LEVELS.index(best) and oracle.capacity(s.version, lv) >= s.end_of_segments:
                        best = lv
                rec.count('sequence_symbols_boost_checked')
                if best != requested:
                    rec.count('sequence_symbols_boost_raised')
                if s.level != best:
                    rec.deviation('C05', 'boost-level', {'got': s.level, 'expected': best, 'requested': requested,
                                                         'version': s.version, 'bits': s.end_of_segments,
                                                         'where': 'make_sequence', 'symbols': len(q)})
        return
    last = monitors.State.last
    s = last[3] if last else None
    if s is None:
        return
    a = oracle.normalize_args(case['kw'])
    boost = case['kw'].get('boost_error', True)
    rec.seen('%s|%s|%s|%s' % (s.version, s.level, a['error_name'], boost))
    if not boost:
        rec.count('boost_off_observed')
        return
    requested = a['error_name'] or ('L' if s.version != 'M1' else None)
    if requested and s.level and s.level != requested:
        rec.count('boost_raised_level')
    # paired call: same arguments, boosting disabled -> same version
    kw = dict(case['kw'], boost_error=False)
    fn = getattr(segno, case['fn'])
    try:
        q2 = fn(case['content'], **kw)
    except Exception as ex2:  # noqa: BLE001
        rec.deviation('C05', 'paired-call-refused', {'error': repr(ex2), 'boosted': q.designator})
        return
    rec.count('paired_calls')
    if q2.version != q.version:
        rec.deviation('C05', 'boost-changed-version', {'boost_on': q.designator, 'boost_off': q2.designator})


def run_cases(cases, rec, tier='quick', seed='0'):
    common.run_encode_cases(cases, rec, {'C05'}, after=after)
