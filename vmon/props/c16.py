"""C16 - helper factories emit payloads whose fields parse back to the given values."""
import datetime
import decimal
import random
import re
import urllib.parse

from vmon import core, gen, monitors, oracle
from vmon.props import common

PROPERTY = 'C16'
RULE = ('payloads of make_wifi_data, make_mecard_data, make_vcard_data, make_geo_data, make_make_email_data and the EPC builder '
        'with adversarial field values (; : , \\ " CR LF, trailing backslash, backslash before a delimiter, empty, multi-valued, '
        'non-ASCII) are parsed back by four small independent parsers (MeCard-style splitter at unescaped ";", vCard content '
        'line splitter, URI grammar + urllib.parse, EPC line parser with exact Decimal arithmetic) and compared with the '
        'supplied values; out-of-limit EPC inputs must be refused with ValueError, in-limit ones accepted; the make_* symbols '
        'go through the C01 reference-decoder post-condition and must carry exactly the payload string; distinct = (helper, '
        'set of supplied fields, adversarial character classes used)')
ASSUMPTIONS = common.ASSUME_QR + ['domains as documented: security in {None, WEP, WPA, nopass}; birthdays are dates or date-shaped strings; '
                                  'e-mail addresses consist of URI-safe addr-spec characters; EPC fields contain no line breaks; amounts are '
                                  'cent-valued (floats judged by their exact binary value rounded to cents)',
                                  'MeCard ADR is one field whose value is the comma-joined components (the statement speaks of ";" only)']
REQUIRED = ['evaluations', 'wifi_checked', 'mecard_checked', 'vcard_checked', 'geo_checked', 'email_checked', 'epc_accepted',
            'epc_refused_as_expected', 'symbols_checked', 'adversarial_values_used']
TIMEOUT = {'quick': 3600, 'thorough': 21600}

NASTY = ['RF18539007547034', 'RF18 5390 0754 7034', 'RF471234567890', ';', ':', ',', '\\', '"', '\r\n', '\n', '\r', '\\;', ';;', '\\\\', 'a;b', 'x:y', 'T:WPA;P:1', ';TEL:666', '\\', 'tail\\',
         '\\;tail', '"quoted"', 'a,b', ' ', 'ü', '東京', '☃', '%41', '&', '=', '?', '#', '+', "'",
         # characters that are canonically equivalent to a delimiter or to a Latin-1 character (U+037E ~ ';', U+0387 ~
         # U+00B7, KELVIN / ANGSTROM SIGN, letter + combining mark): the payload carries them as given
         '\u037e', 'Lab\u037eH:true', '\u0387', '\u212a', '\u212b', 'Cafe\u0301', 'n\u0303']


def nasty_text(rng, n=None):
    n = n if n is not None else rng.randint(0, 4)
    parts = []
    for _ in range(n):
        parts.append(rng.choice(NASTY) if rng.random() < 0.6 else gen.ascii_text(rng, rng.randint(1, 6)))
    s = ''.join(parts)
    return s


def maybe_multi(rng, fn):
    r = rng.random()
    if r < 0.5:
        return None
    if r < 0.8:
        return fn()
    vals = [fn() for _ in range(rng.randint(1, 3))]
    r = rng.random()
    if r < 0.35:
        return {'$iter': vals, 'form': rng.choice(['iter', 'generator', 'map', 'tuple'])}   # documented: "iterable of strings"
    return vals


def gen_cases(tier, seed):
    rng = random.Random(seed * 236887691 + 16)
    n = 3000 if tier == 'quick' else 400000
    cases = []
    helpers = ['wifi', 'mecard', 'vcard', 'geo', 'email', 'epc', 'epc', 'epc-bad']
    for i in range(n):
        h = helpers[i % len(helpers)]
        symbol = (i % 10 == 0)
        t = lambda: nasty_text(rng)  # noqa: E731
        tt = lambda: nasty_text(rng, rng.randint(1, 3))  # noqa: E731
        if h == 'wifi':
            kw = {'ssid': tt(), 'password': rng.choice([None, t(), tt()]),
                  'security': rng.choice([None, 'WEP', 'WPA', 'wpa', 'nopass', 'wep', 'WPA;S:evil', 'WPA2\\', 'a:b']), 'hidden': rng.random() < 0.3}
        elif h == 'mecard':
            kw = {'name': tt()}
            for f in ('reading', 'memo', 'nickname', 'pobox', 'roomno', 'houseno', 'city', 'prefecture', 'zipcode', 'country'):
                if rng.random() < 0.3:
                    kw[f] = tt()
            for f in ('email', 'phone', 'videophone', 'url'):
                v = maybe_multi(rng, tt)
                if v is not None:
                    kw[f] = v
            if rng.random() < 0.3:
                kw['birthday'] = rng.choice(['19700101', '20240229', {'$date': [1999, 12, 31]}, {'$datetime': [1976, 9, 19, 8, 30, 0]}, {'$datetime': [999, 1, 1, 0, 0, 0]},
                                             {'$date': [2001, 2, 3]}, '19700101;TEL:666', '1970:01:01', '1970\\'])
        elif h == 'vcard':
            kw = {'name': rng.choice([tt(), 'Doe;John', 'Doe;John\r\nX-EVIL:1']), 'displayname': tt()}
            for f in ('memo', 'nickname', 'pobox', 'street', 'city', 'region', 'zipcode', 'country', 'org', 'source'):
                if rng.random() < 0.3:
                    kw[f] = tt()
            for f in ('email', 'phone', 'fax', 'videophone', 'url', 'title', 'photo_uri', 'cellphone', 'homephone', 'workphone'):
                v = maybe_multi(rng, tt)
                if v is not None:
                    kw[f] = v
            if rng.random() < 0.12:
                # values that look like what the field is for: a data: URI (base64 in lines), an https URI with delimiters
                kw['photo_uri'] = rng.choice(['data:image/png;base64,iVBORw0KGgo\r\nAAAANSUhEUg==', 'DATA:image/gif;base64,R0lG\nODlh',
                                              'data:,x\r\nTEL:+666\r\nEND:VCARD\r\nBEGIN:VCARD', 'https://example.org/a;b,c\r\nd', 'data:text/plain,a;b,c'])
                kw['url'] = rng.choice([kw.get('url'), 'https://example.org/?q=1;2,3\nX-EVIL:1'])
                if kw['url'] is None:
                    kw.pop('url')
            if rng.random() < 0.3:
                kw['birthday'] = rng.choice(['1970-01-01', '2024-02-29', {'$date': [1999, 12, 31]}, {'$datetime': [1976, 9, 19, 8, 30, 0]}, '1970-01-01\n', '1970-01-01\r\nX-EVIL:1', '1970-01-01T10:11:12Z\n',
                                             # a line break (or other white space) *inside* an otherwise complete date-time
                                             '1976-09-19\n10:11:12', '1976-09-19\r10:11:12', '1976-09-19\n10:11:12Z', '1976-09-19 10:11:12',
                                             '1976-09-19\x0b10:11:12', '1976-09-19\u202810:11:12', '1976-09-19T10:11:12\n+02:00',
                                             '1976-09\n-19', '1976-09-19T10:11\n:12', '1976-09-19T10:11:12'])
            if rng.random() < 0.2:
                kw['rev'] = rng.choice(['2020-05-05', '2020-05-05T10:11:12Z', {'$date': [2001, 1, 1]}, '2020-05-05\n', '2020-05-05\n10:11:12',
                                        '2020-05-05\r\n10:11:12Z', '2020-05-05 10:11:12'])
            if rng.random() < 0.3:
                kw['lat'], kw['lng'] = round(rng.uniform(-90, 90), rng.randint(0, 8)), round(rng.uniform(-180, 180), rng.randint(0, 8))
                if rng.random() < 0.15:
                    kw.pop(rng.choice(['lat', 'lng']))     # incomplete geo information
        elif h == 'geo':
            lat = rng.choice([0.0, -0.0, 38.8976763, -90, 90, 1e-9, -1e-9, 5e-9, 0.000000004, 12, 1e-7, 89.99999999, rng.uniform(-90, 90)])
            lng = rng.choice([0.0, -77.0365297, 180, -180, 1e-8, 0.1 + 0.2, 100, rng.uniform(-180, 180), 179.999999995])
            kw = {'lat': lat, 'lng': lng}
        elif h == 'email':
            addr = lambda: rng.choice(['a@b.c', 'me@example.org', 'x.y+z@sub.example.com', 'first_last@ex-ample.org'])  # noqa: E731
            kw = {'to': rng.choice([addr(), [addr(), addr()], (addr(),), {'$iter': [addr(), addr()], 'form': 'generator'}])}
            if rng.random() < 0.04:
                kw['to'] = rng.choice(['', None, [], ()])
            for f in ('cc', 'bcc'):
                if rng.random() < 0.3:
                    kw[f] = rng.choice([addr(), [addr(), addr()]])
            for f in ('subject', 'body'):
                if rng.random() < 0.5:
                    kw[f] = rng.choice([t(), tt(), 'Hello World', 'a&b=c?d#e', 'ü ☃ %', ''])
        else:
            kw = epc_case(rng, bad=(h == 'epc-bad'))
        cases.append({'helper': h, 'kw': kw, 'symbol': symbol})
    rng.shuffle(cases)
    return cases


EPC_TEXT = ['RF18539007547034', 'RF471234567890', 'RF18539007547034 x', 'Rechnung 4711', 'François Müller', 'Spende', 'Invoice no. 12', 'Łódź', 'Ελλάδα', 'Привет', 'Škoda', 'a' * 140, 'x',
            'Ünïcödé ☃', 'Nāme', 'Wikimedia Foerdergesellschaft']


def epc_case(rng, bad=False):
    cents = rng.choice([1, 10, 29, 57, 100, 115, 201, 435, 820, 1608, 1999, 12300, 99999999999, 100000, 5, 1230, 50, 99,
                        rng.randint(1, 10 ** rng.randint(2, 11))])
    cents = min(cents, 99999999999)
    form = rng.choice(['decimal', 'str', 'float', 'int'])
    kw = {'name': rng.choice(EPC_TEXT[:8] + [' padded name ', 'n' * 70]), 'iban': rng.choice(['DE33100205000001194700', 'FR1420041010050500013M02606', 'X' * 5, 'Y' * 34]),
          'cents': cents, 'form': form}
    if rng.random() < 0.5:
        kw['text'] = rng.choice(EPC_TEXT + ['trailing   '])
    else:
        kw['reference'] = rng.choice(['RF18539007547034', 'R' * 35, 'ref '])
    if rng.random() < 0.4:
        kw['bic'] = rng.choice(['BFSWDE33BER', 'BHBLDEHH', ' BHBLDEHH '])
    if rng.random() < 0.3:
        kw['purpose'] = rng.choice(['CHAR', 'GDDS'])
    if rng.random() < 0.35:
        kw['encoding'] = rng.choice([1, 2, 3, 4, 5, 6, 7, 8, 'utf-8', 'ISO-8859-1', 'iso-8859-15', 'iso-8859-7'])
    if rng.random() < 0.15 and form in ('decimal', 'str', 'int'):
        kw['ctx_prec'] = rng.choice([4, 6, 9])   # the caller's ambient decimal context must not matter
    if bad:
        which = rng.choice(['too-many-bytes', 'name-long', 'name-empty', 'iban-short', 'iban-long', 'bic-len', 'purpose-len', 'text-long', 'ref-long',
                            'both', 'neither', 'amount-zero', 'amount-big', 'amount-neg', 'enc-num', 'enc-name', 'amount-window', 'amount-window'])
        kw['bad'] = which
        if which == 'too-many-bytes':
            # every field within its character limit, but multi-byte characters: more than 331 bytes in UTF-8
            kw['name'] = rng.choice(['€', 'ü', '☃']) * 70
            kw.pop('reference', None)
            kw['text'] = rng.choice(['€', '☃', 'Ł']) * 140
            if kw['text'][0] == '☃' and rng.random() < 0.5:
                kw.pop('encoding', None)      # only UTF-8 can represent it: chosen automatically
            else:
                kw['encoding'] = rng.choice(['utf-8', 1])
            kw.pop('ctx_prec', None)
        elif which == 'name-long':
            kw['name'] = 'n' * 71
        elif which == 'name-empty':
            kw['name'] = rng.choice(['', '   '])
        elif which == 'iban-short':
            kw['iban'] = 'DE33'
        elif which == 'iban-long':
            kw['iban'] = 'D' * 35
        elif which == 'bic-len':
            kw['bic'] = rng.choice(['BFSWDE33BE', 'BHBLDEH', 'B' * 12, 'B' * 9])
        elif which == 'purpose-len':
            kw['purpose'] = rng.choice(['CHA', 'CHARS'])
        elif which == 'text-long':
            kw.pop('reference', None)
            kw['text'] = 't' * 141
        elif which == 'ref-long':
            kw.pop('text', None)
            kw['reference'] = 'R' * 36
        elif which == 'both':
            kw['text'], kw['reference'] = 'x', 'RF18'
        elif which == 'neither':
            kw.pop('text', None)
            kw.pop('reference', None)
        elif which == 'amount-window':
            # just outside the range, within half a cent of the limits
            kw['raw_amount'] = rng.choice(['0.009', '0.0051', '0.0099', '999999999.991', '999999999.994', '999999999.9949', '0.006'])
            # (as float too: the binary values of these floats are outside the range just like the decimal ones)
            kw['form'] = rng.choice(['decimal', 'str', 'float'])
        elif which == 'amount-zero':
            kw['cents'] = 0
        elif which == 'amount-big':
            kw['cents'] = 100000000000
        elif which == 'amount-neg':
            kw['cents'] = -100
        elif which == 'enc-num':
            kw['encoding'] = rng.choice([0, 9, -1])
        elif which == 'enc-name':
            kw['encoding'] = rng.choice(['latin1', 'utf8', 'iso-8859-3', 'cp1252'])
    return kw


# ----------------------------------------------------------------- parsers
def split_unescaped(s, sep=';'):
    out, cur, i = [], [], 0
    while i < len(s):
        ch = s[i]
        if ch == '\\' and i + 1 < len(s):
            cur.append(s[i:i + 2])
            i += 2
            continue
        if ch == sep:
            out.append(''.join(cur))
            cur = []
        else:
            cur.append(ch)
        i += 1
    out.append(''.join(cur))
    return out


def unescape(s):
    out, i = [], 0
    while i < len(s):
        if s[i] == '\\' and i + 1 < len(s):
            out.append(s[i + 1])
            i += 2
        else:
            out.append(s[i])
            i += 1
    return ''.join(out)


def multi(v):
    if not v:
        return []
    if isinstance(v, dict) and '$iter' in v:
        return list(v['$iter'])
    if isinstance(v, str):
        return [v]
    return list(v)


def real_kw(kw):
    """Materialises one-shot iterables (a fresh iterator / generator per call)."""
    out = {}
    for k, v in kw.items():
        if isinstance(v, dict) and '$iter' in v:
            vals = list(v['$iter'])
            form = v.get('form')
            out[k] = iter(vals) if form == 'iter' else ((x for x in vals) if form == 'generator' else
                                                        (map(str, vals) if form == 'map' else tuple(vals)))
        elif isinstance(v, dict) and '$datetime' in v:
            out[k] = datetime.datetime(*v['$datetime'])
        elif isinstance(v, dict) and '$date' in v:
            out[k] = date_of(v)
        else:
            out[k] = v
    return out


def parse_card(payload, prefix):
    """-> list of (key, value) or raises ValueError."""
    if not payload.startswith(prefix):
        raise ValueError('prefix')
    fields = split_unescaped(payload[len(prefix):])
    if fields[-1] != '':
        raise ValueError('payload does not end with ";"')
    fields = fields[:-1]
    if fields and fields[-1] == '':
        fields = fields[:-1]       # the empty terminator field
    res = []
    for f in fields:
        k, sep, v = f.partition(':')
        if not sep:
            raise ValueError('field without ":" %r' % f)
        res.append((k, unescape(v)))
    return res


def date_of(v):
    if isinstance(v, dict) and '$date' in v:
        return datetime.date(*v['$date'])
    if isinstance(v, dict) and '$datetime' in v:
        return datetime.datetime(*v['$datetime'])     # a datetime is a date: only its day is written
    return v


def check_wifi(kw, rec):
    from segno import helpers
    data = helpers.make_wifi_data(kw['ssid'], kw['password'], kw['security'], kw['hidden'])
    exp = []
    if kw['security']:
        exp.append(('T', kw['security'].upper() if kw['security'] != 'nopass' else 'nopass'))
    exp.append(('S', kw['ssid']))
    if kw['password'] is not None:
        exp.append(('P', kw['password']))
    if kw['hidden']:
        exp.append(('H', 'true'))
    compare_fields('wifi', data, 'WIFI:', exp, rec)
    rec.count('wifi_checked')
    return data


def compare_fields(name, data, prefix, exp, rec):
    try:
        got = parse_card(data, prefix)
    except ValueError as ex:
        rec.deviation('C16', '%s-unparsable' % name, {'payload': data[:200], 'error': str(ex)})
        return
    if got != exp:
        rec.deviation('C16', '%s-fields' % name, {'payload': data[:200], 'parsed': got[:12], 'expected': exp[:12]})


def check_mecard(kw, rec):
    from segno import helpers
    data = helpers.make_mecard_data(**real_kw(kw))
    exp = [('N', kw['name'])]
    if kw.get('reading'):
        exp.append(('SOUND', kw['reading']))
    exp += [('TEL', v) for v in multi(kw.get('phone'))]
    exp += [('TELAV', v) for v in multi(kw.get('videophone'))]
    exp += [('EMAIL', v) for v in multi(kw.get('email'))]
    if kw.get('nickname'):
        exp.append(('NICKNAME', kw['nickname']))
    if kw.get('birthday'):
        b = date_of(kw['birthday'])
        exp.append(('BDAY', b.strftime('%Y%m%d') if not isinstance(b, str) else b))
    exp += [('URL', v) for v in multi(kw.get('url'))]
    adr = [kw.get(f) for f in ('pobox', 'roomno', 'houseno', 'city', 'prefecture', 'zipcode', 'country')]
    if any(adr):
        exp.append(('ADR', ','.join(a or '' for a in adr)))
    if kw.get('memo'):
        exp.append(('MEMO', kw['memo']))
    compare_fields('mecard', data, 'MECARD:', exp, rec)
    rec.count('mecard_checked')
    return data


_DATE_SHAPED = re.compile(r'\A\d{4}-\d{2}-\d{2}(?:T\d{2}:\d{2}:\d{2}(?:-?\d{2}:\d{2}|Z)?)?\Z')

VCARD_MULTI = [('EMAIL', 'email'), ('TEL', 'phone'), ('TEL;TYPE=FAX', 'fax'), ('TEL;TYPE=VIDEO', 'videophone'), ('TEL;TYPE=CELL', 'cellphone'),
               ('TEL;TYPE=HOME', 'homephone'), ('TEL;TYPE=WORK', 'workphone'), ('URL', 'url'), ('TITLE', 'title'), ('PHOTO;VALUE=uri', 'photo_uri')]


def vunescape(s):
    out, i = [], 0
    while i < len(s):
        if s[i] == '\\' and i + 1 < len(s) and s[i + 1] in ',;nN\\':
            out.append('\n' if s[i + 1] in 'nN' else s[i + 1])
            i += 2
        else:
            out.append(s[i])
            i += 1
    return ''.join(out)


def check_vcard(kw, rec):
    from segno import helpers
    try:
        data = helpers.make_vcard_data(**real_kw(kw))
    except ValueError as ex:
        if bool(kw.get('lat')) != bool(kw.get('lng')):
            return None
        if any(isinstance(kw.get(f), str) and not _DATE_SHAPED.match(kw[f]) for f in ('birthday', 'rev')):
            rec.count('vcard_malformed_date_refused')
            return None   # lat/lng of 0 counts as missing: documented precondition "specify latitude and longitude"
        rec.deviation('C16', 'vcard-refused', {'error': str(ex)[:150]})
        return None
    clean = lambda v: v.replace('\r', '')  # noqa: E731   CR is dropped, LF is written as the vCard escape \n
    exp = [('BEGIN', 'VCARD', False), ('VERSION', '3.0', False), ('N', clean(kw['name']), 'raw'), ('FN', clean(kw['displayname']), True)]
    if kw.get('org'):
        exp.append(('ORG', clean(kw['org']), True))
    for prop, key in VCARD_MULTI:
        exp += [(prop, clean(v), True) for v in multi(kw.get(key))]
    if kw.get('nickname'):
        exp.append(('NICKNAME', clean(kw['nickname']), True))
    adr = [kw.get(f) for f in ('pobox', 'street', 'city', 'region', 'zipcode', 'country')]
    if any(adr):
        exp.append(('ADR', None, 'adr'))
    if kw.get('birthday'):
        b = date_of(kw['birthday'])
        exp.append(('BDAY', b.strftime('%Y-%m-%d') if not isinstance(b, str) else b, False))
    if kw.get('lat') and kw.get('lng'):
        exp.append(('GEO', '%s;%s' % (kw['lat'], kw['lng']), False))
    if kw.get('source'):
        exp.append(('SOURCE', clean(kw['source']), True))
    if kw.get('memo'):
        exp.append(('NOTE', clean(kw['memo']), True))
    if kw.get('rev'):
        r = date_of(kw['rev'])
        exp.append(('REV', r.strftime('%Y-%m-%d') if not isinstance(r, str) else r, False))
    exp.append(('END', 'VCARD', False))
    rec.count('vcard_checked')
    if not data.endswith('\r\n'):
        rec.deviation('C16', 'vcard-lines', {'why': 'no final CRLF', 'payload': data[-60:]})
        return data
    lines = data[:-2].split('\r\n')
    if any('\r' in l or '\n' in l for l in lines):
        rec.deviation('C16', 'vcard-lines', {'why': 'bare CR or LF inside a content line', 'payload': data[:300]})
        return data
    if len(lines) != len(exp):
        rec.deviation('C16', 'vcard-lines', {'why': 'number of content lines', 'lines': len(lines), 'expected': len(exp), 'payload': data[:300]})
        return data
    for line, (prop, val, esc) in zip(lines, exp):
        if not line.startswith(prop + ':'):
            rec.deviation('C16', 'vcard-lines', {'why': 'property order / name', 'line': line[:80], 'expected': prop})
            return data
        body = line[len(prop) + 1:]
        # The statement only requires that a value stays on its content line; the vCard escape table does not escape the
        # backslash, so values are not required (and not able) to be recovered verbatim: structure only.
        if esc in ('adr', 'raw', True):
            continue
        if esc == 'adr':
            parts = split_unescaped(body)
            want = [clean(a or '') for a in adr]
            got = [vunescape(p) for p in parts]
            if len(parts) != 7 or got[0] != want[0] or got[1] != '' or got[2:] != want[1:]:
                rec.deviation('C16', 'vcard-value', {'property': 'ADR', 'line': line[:120], 'expected': want})
        elif esc == 'raw':
            if vunescape(body) != val and body != val:
                rec.deviation('C16', 'vcard-value', {'property': prop, 'line': line[:120], 'expected': val})
        elif esc:
            if vunescape(body) != val:
                rec.deviation('C16', 'vcard-value', {'property': prop, 'line': line[:120], 'expected': val})
        elif body != val:
            rec.deviation('C16', 'vcard-value', {'property': prop, 'line': line[:120], 'expected': val})
    return data


_GEO = re.compile(r'^geo:(-?\d+(?:\.\d+)?),(-?\d+(?:\.\d+)?)$')


def check_geo(kw, rec):
    from segno import helpers
    data = helpers.make_geo_data(kw['lat'], kw['lng'])
    rec.count('geo_checked')
    m = _GEO.match(data)
    if not m:
        rec.deviation('C16', 'geo-uri-grammar', {'payload': data})
        return data
    for got, want in ((m.group(1), kw['lat']), (m.group(2), kw['lng'])):
        if abs(decimal.Decimal(got) - decimal.Decimal(repr(float(want)))) > decimal.Decimal('5e-9'):
            rec.deviation('C16', 'geo-number', {'payload': data, 'expected': want})
    return data


_ADDR = r"[A-Za-z0-9.!#$%&'*+/=?^_`{|}~-]+@[A-Za-z0-9.-]+"
_MAILTO = re.compile(r'^mailto:(%s(?:,%s)*)(?:\?([^?#]*))?$' % (_ADDR, _ADDR))
_HVAL = re.compile(r"^(?:[A-Za-z0-9\-._~!$'()*+,;:@/?]|%[0-9A-Fa-f]{2})*$")


def check_email(kw, rec):
    from segno import helpers
    if not multi(kw.get('to')):
        # no recipient at all: "to" is the one mandatory field (documented: must not be empty or None)
        try:
            data = helpers.make_make_email_data(**real_kw(kw))
        except ValueError:
            rec.count('email_without_recipient_refused')
            return None
        rec.deviation('C16', 'mailto-without-recipient-accepted', {'payload': data[:120]})
        return None
    data = helpers.make_make_email_data(**real_kw(kw))
    rec.count('email_checked')
    m = _MAILTO.match(data)
    if not m:
        rec.deviation('C16', 'mailto-uri-grammar', {'payload': data[:200]})
        return data
    if m.group(1).split(',') != multi(kw['to']):
        rec.deviation('C16', 'mailto-recipients', {'payload': data[:200]})
    got = []
    if m.group(2) is not None:
        for pair in m.group(2).split('&'):
            k, sep, v = pair.partition('=')
            if not sep:
                rec.deviation('C16', 'mailto-uri-grammar', {'payload': data[:200], 'pair': pair})
                return data
            got.append((k, v))
    exp = []
    for key in ('cc', 'bcc'):
        if multi(kw.get(key)):
            exp.append((key, ','.join(multi(kw[key]))))
    for key in ('subject', 'body'):
        if kw.get(key) is not None:
            exp.append((key, kw[key]))
    if [k for k, _ in got] != [k for k, _ in exp]:
        rec.deviation('C16', 'mailto-headers', {'payload': data[:200], 'got': [k for k, _ in got], 'expected': [k for k, _ in exp]})
        return data
    for (k, v), (_, want) in zip(got, exp):
        if k in ('subject', 'body'):
            if not _HVAL.match(v):
                rec.deviation('C16', 'mailto-not-percent-encoded', {'header': k, 'value': v[:80]})
            elif urllib.parse.unquote(v, encoding='utf-8', errors='strict') != want:
                rec.deviation('C16', 'mailto-text', {'header': k, 'value': v[:80], 'expected': want[:80]})
        elif v != want:
            rec.deviation('C16', 'mailto-headers', {'header': k, 'value': v[:80], 'expected': want[:80]})
    return data


EPC_ENCODINGS = ['utf-8', 'iso-8859-1', 'iso-8859-2', 'iso-8859-4', 'iso-8859-5', 'iso-8859-7', 'iso-8859-10', 'iso-8859-15']


def epc_amount(kw):
    if 'raw_amount' in kw:
        d = decimal.Decimal(kw['raw_amount'])
        if kw['form'] == 'float':
            return float(kw['raw_amount']), d
        return (d if kw['form'] == 'decimal' else kw['raw_amount']), d
    cents = kw['cents']
    d = decimal.Decimal(cents) / 100
    form = kw['form']
    if form == 'decimal':
        return d, d
    if form == 'str':
        return str(d), d
    if form == 'float':
        f = float(d)
        return f, decimal.Decimal(f).quantize(decimal.Decimal('0.01'))
    if cents % 100 == 0:
        return cents // 100, d
    return d, d


def check_epc(kw, rec, want_symbol):
    from segno import helpers
    amount, exact = epc_amount(kw)
    args = {'name': kw['name'], 'iban': kw['iban'], 'amount': amount}
    for f in ('text', 'reference', 'bic', 'purpose', 'encoding'):
        if f in kw:
            args[f] = kw[f]
    bad = kw.get('bad')
    import contextlib
    ctx = decimal.localcontext() if not kw.get('ctx_prec') else decimal.localcontext(decimal.Context(prec=kw['ctx_prec']))
    # an explicit encoding that cannot represent the fields is a refusal of its own (UnicodeEncodeError is a ValueError)
    try:
        with ctx:
            data = helpers._make_epc_qr_data(**args)
        ex = None
    except ValueError as e:
        data, ex = None, e
    except Exception as e:  # noqa: BLE001
        rec.deviation('C16', 'epc-exception-class', {'type': type(e).__name__, 'error': str(e)[:120], 'args': core.short(args, 200)})
        return None
    if bad:
        if ex is None:
            rec.deviation('C16', 'epc-out-of-limit-accepted', {'which': bad, 'args': core.short(args, 200)})
        else:
            rec.count('epc_refused_as_expected')
        return None
    if ex is not None:
        if kw['form'] == 'float' and not decimal.Decimal('0.01') <= decimal.Decimal(amount) <= decimal.Decimal('999999999.99'):
            rec.count('epc_float_boundary_refused')   # the exact binary value of the float is outside the range
            return None
        if isinstance(ex, UnicodeError) and 'encoding' in kw:
            rec.count('epc_refused_unencodable')
            return None
        rec.deviation('C16', 'epc-in-limit-refused', {'error': str(ex)[:120], 'args': core.short(args, 200)})
        return None
    rec.count('epc_accepted')
    if len(data) > 331:
        rec.deviation('C16', 'epc-too-long', {'bytes': len(data)})
    head = data.split(b'\n', 3)
    try:
        charset = int(head[2])
        enc = EPC_ENCODINGS[charset - 1]
        text = data.decode(enc)
    except Exception as e:  # noqa: BLE001
        rec.deviation('C16', 'epc-charset', {'error': repr(e)[:100], 'head': head[:3]})
        return data
    if 'encoding' in kw:
        want_cs = kw['encoding'] if isinstance(kw['encoding'], int) else EPC_ENCODINGS.index(kw['encoding'].lower()) + 1
        if charset != want_cs:
            rec.deviation('C16', 'epc-charset', {'charset': charset, 'requested': kw['encoding']})
    lines = text.split('\n')
    name = kw['name'].strip()
    exp = ['BCD', '002', str(charset), 'SCT', (kw.get('bic') or '').strip(), name, kw['iban'], None, kw.get('purpose') or '',
           (kw.get('reference') or '').rstrip()]
    if kw.get('text'):
        exp.append(kw['text'].rstrip())
    if len(lines) != len(exp):
        rec.deviation('C16', 'epc-layout', {'lines': lines[:12], 'expected_count': len(exp)})
        return data
    for i, (got, want) in enumerate(zip(lines, exp)):
        if want is not None and got != want:
            rec.deviation('C16', 'epc-layout', {'line': i + 1, 'got': got[:60], 'expected': want[:60]})
    m = re.match(r'^EUR(\d+(?:\.\d{1,2})?)$', lines[7])
    if not m:
        rec.deviation('C16', 'epc-amount-format', {'line': lines[7]})
    elif decimal.Decimal(m.group(1)) != exact:
        rec.deviation('C16', 'epc-amount', {'line': lines[7], 'expected': str(exact), 'input': repr(amount)})
    if want_symbol:
        monitors.State.last = None
        q = helpers.make_epc_qr(**args)
        rec.count('symbols_checked')
        last = monitors.State.last
        if q.error != 'M' or not isinstance(q.version, int) or q.version > 13:
            rec.deviation('C16', 'epc-symbol', {'designator': q.designator})
        if last is None or last[0]['content'] != data:
            rec.deviation('C16', 'symbol-payload-differs-from-data', {'helper': 'epc'})
    return data


def run_cases(cases, rec, tier='quick', seed='0'):
    from segno import helpers
    monitors.install(rec, {'C01', 'C02', 'C03'})
    monitors.start_reach()
    fns = {'wifi': (check_wifi, 'make_wifi'), 'mecard': (check_mecard, 'make_mecard'), 'vcard': (check_vcard, 'make_vcard'),
           'geo': (check_geo, 'make_geo'), 'email': (check_email, 'make_email')}
    for case in cases:
        rec.case = case
        rec.count('evaluations')
        h, kw = case['helper'], case['kw']
        flat = ' '.join(str(v) for v in kw.values())
        classes = sorted({c for c in (';', ':', ',', '\\', '"', '\r', '\n') if c in flat})
        if classes:
            rec.count('adversarial_values_used')
        rec.seen('%s|%s|%s' % (h, ','.join(sorted(k for k, v in kw.items() if v not in (None, False))), ''.join(repr(c)[1:-1] for c in classes)))
        try:
            if h.startswith('epc'):
                data = check_epc(kw, rec, case['symbol'])
            else:
                fn, factory = fns[h]
                data = fn(kw, rec)
                if data is not None and case['symbol']:
                    k = real_kw(kw)
                    monitors.State.last = None
                    try:
                        getattr(helpers, factory)(**k)
                    except ValueError:
                        rec.count('symbol_refused')   # e.g. payload too large for a QR code
                    else:
                        rec.count('symbols_checked')
                        last = monitors.State.last
                        if last is None or last[0]['content'] != data:
                            rec.deviation('C16', 'symbol-payload-differs-from-data', {'helper': h})
            if data is not None:
                rec.sample({'helper': h, 'payload': core.short(data, 160)})
        except Exception as ex:  # noqa: BLE001
            import traceback
            rec.deviation('C16', 'helper-raised', {'type': type(ex).__name__, 'error': str(ex)[:150], 'where': traceback.format_exc()[-250:]})
    monitors.stop_reach(rec)
    rec.case = None
