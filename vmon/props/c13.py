"""C13 - data bit stream is terminated and padded as ISO 7.4.9 / 7.4.10 require."""
import random

from refmodel import qr
from vmon import gen, monitors, oracle
from vmon.props import common

PROPERTY = 'C13'
RULE = ('contents constructed from the bit-cost model so that every residue (stream length mod 8) x distance to capacity '
        '(0..12 bits and far) occurs for QR and for each Micro version, plus random symbols; the data codewords recovered '
        'by the reference decoder are split into segments / terminator / alignment bits / pad codewords / final nibble / '
        'remainder bits and each part is checked; distinct = (symbol kind, residue after the last segment, distance class) '
        'combinations observed')
ASSUMPTIONS = common.ASSUME_QR
REQUIRED = ['cases_under_python_O', 'evaluations', 'encode_observed', 'symbols_decoded', 'tails_checked', 'tails_with_pad_codewords',
            'tails_truncated_terminator', 'tails_m1m3']
TIMEOUT = {'quick': 3600, 'thorough': 21600}
OPT_SLICE = {'quick': 120, 'thorough': 1500}     # cases re-run by one more worker under python -O (core.run_sharded)


def gen_cases(tier, seed):
    rng = random.Random(seed * 98765431 + 13)
    cases = []
    # all lengths up to (and one above) capacity for the small symbols: covers every residue x distance combination
    small = oracle.MICRO + ([1, 2] if tier == 'quick' else [1, 2, 3, 4, 5, 6])
    for v in small:
        for lv in oracle.levels_of(v):
            for mode in ('numeric', 'alphanumeric', 'byte', 'kanji'):
                n = gen.max_chars(v, lv, mode)
                if not n:
                    continue
                lens = range(1, n + 1)
                if n > 60:
                    lens = sorted(set(list(range(1, 25)) + list(range(n - 24, n + 1)) + [rng.randint(1, n) for _ in range(20)]))
                for k in lens:
                    kw = {'version': v, 'boost_error': False}
                    if lv:
                        kw['error'] = lv
                    cases.append(common.mk(gen.content_for_bits(mode, k), tag='sweep', **kw))
                    if isinstance(v, str) and lv == oracle.levels_of(v)[0]:
                        # the same with boosting (default): capacity and padding must follow the boosted level
                        kw = dict(kw)
                        kw.pop('boost_error')
                        cases.append(common.mk(gen.content_for_bits(mode, k), tag='sweep-boost', **kw))
    # near capacity for every version / level
    for (v, lv, mode, n) in gen.boundaries(('numeric', 'alphanumeric', 'byte', 'kanji')):
        if isinstance(v, str) or v <= 2:
            continue
        ks = [n, n - 1, n - 2, n - 3] if tier == 'thorough' else [n, n - rng.randint(1, 3)]
        for k in ks:
            if k > 0:
                cases.append(common.mk(gen.content_for_bits(mode, k), tag='near-capacity', version=v, error=lv, boost_error=False))
    cases += common.eci_boundary_cases(rng, tier)
    # an empty part in an explicitly requested mode between other parts (refused by the library; were it accepted, the
    # empty numeric segment of a Micro symbol - indicator 0...0, count 0 - would be the terminator for every reader)
    for empty in (('', 1), ('', 2), ''):
        for parts in ([('12', 1), empty, ('ABC', 2)], [empty, ('ABC', 2)], ['12', empty, 'abc'], [('7', 1), empty, ('8', 1), 'A']):
            for kw in ({}, {'micro': True}, {'micro': False}, {'version': 'M2'}, {'version': 'M4'}):
                cases.append(common.mk(list(parts), tag='empty-part-in-mode', **kw))
    # multi segment / eci / random
    cases += common.random_cases(rng, 800 if tier == 'quick' else 60000, heavy=True)
    for _ in range(100 if tier == 'quick' else 1500):
        # symbol_count only: the version= path truncates chunks (known finding of C08, sa-version-count-underestimate)
        kw = {'symbol_count': rng.randint(2, 5)}
        cases.append({'fn': 'make_sequence', 'content': gen.content_for_bits(rng.choice(['numeric', 'alphanumeric', 'byte']), rng.randint(6, 120)),
                      'kw': kw, 'tag': 'sequence'})
    rng.shuffle(cases)
    return cases


def note(s, rec):
    if s is None or s.parse_error is not None:
        return
    st = s.structure
    cap = len(s.data_bits)
    end = s.end_of_segments
    dist = cap - end
    kind = s.version if isinstance(s.version, str) else 'QR'
    rec.count('tails_checked')
    rec.seen('%s|res%d|dist%s' % (kind, end % 8, dist if dist <= 12 else 'far'))
    if st['pad_codewords']:
        rec.count('tails_with_pad_codewords')
    term = 4 if kind == 'QR' else qr.TERMINATOR_LEN[kind]
    if dist < term:
        rec.count('tails_truncated_terminator')
    if kind in ('M1', 'M3'):
        rec.count('tails_m1m3')
    if (end + st['terminator_bits']) % 8 == 0 and st['pad_codewords']:
        rec.count('tails_aligned_after_terminator')


def after(case, q, ex, rec):
    if ex is not None or q is None:
        return
    if case['fn'] == 'make_sequence':
        for sym in q:
            s, err = oracle.read(sym.matrix)
            if s is None:
                continue
            out = []
            oracle.check_tail(s, out)
            for prop, kind, detail in out:
                rec.deviation(prop, kind, detail)
            note(s, rec)
        return
    last = monitors.State.last
    note(last[3] if last else None, rec)


def run_cases(cases, rec, tier='quick', seed='0'):
    common.run_encode_cases(cases, rec, {'C13'}, after=after)


def main_phase(tier, seed, rec):
    """Thorough tier: the repository's own test-suite as one more workload under the same monitor."""
    if tier == 'thorough':
        common.suite_under_monitors({'C13'}, rec)
