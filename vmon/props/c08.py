"""C08 - Structured Append sequences reassemble to the original message."""
import random
from functools import reduce

from refmodel import qr
from vmon import gen, monitors, oracle
from vmon.props import common

PROPERTY = 'C08'
RULE = ('make_sequence over content classes (digits, alphanumeric, ASCII, Latin-1, Shift JIS text, multi-byte text, bytes, '
        'int) x {version, symbol_count, both} x level x boost x mask x encoding x mode, lengths from 1 symbol up to beyond 16 '
        'symbols; every symbol of the returned sequence is decoded by the reference decoder; an offline checker over the '
        'sequence verifies count (1..16, = symbol_count, only version v), no Micro symbol, valid symbols whose data fits, '
        'Structured Append headers (index, total-1, parity = XOR of all message bytes, identical), and that the '
        'concatenated payloads equal the bytes of the content; distinct = (content class, which selector, number of '
        'symbols, version) combinations')
ASSUMPTIONS = common.ASSUME_QR + ['a one-symbol result may or may not carry a Structured Append header (statement is silent)',
                                  'version and symbol_count both given: only the common clauses are checked (DESIGN 4.1)']
REQUIRED = ['evaluations', 'encode_sequence_observed', 'sequences_checked', 'multi_symbol_sequences', 'symbols_decoded_in_sequences',
            'sequences_by_symbol_count', 'sequences_by_version']
TIMEOUT = {'quick': 3600, 'thorough': 21600}


def gen_cases(tier, seed):
    rng = random.Random(seed * 141650939 + 8)
    cases = []
    n = 1100 if tier == 'quick' else 25000
    classes = ['digits', 'alnum', 'ascii', 'latin1', 'latin1_jis', 'kana', 'utf8', 'cyr', 'bytes', 'int', 'sjis_bytes', 'cp932_only', 'hanzi', 'nfd']
    for _ in range(n):
        cls = rng.choice(classes)
        kw = {}
        sel = rng.choice(['version', 'symbol_count', 'symbol_count', 'both'])
        v = rng.choice([1, 1, 2, 3, 4, 5, 7, 10] + ([20, 27, 40] if tier == 'thorough' else []))
        if sel in ('version', 'both'):
            kw['version'] = v
        if sel in ('symbol_count', 'both'):
            kw['symbol_count'] = rng.randint(1, 16)
        if rng.random() < 0.6:
            kw['error'] = rng.choice(['L', 'M', 'Q', 'H'])
        if rng.random() < 0.3:
            kw['boost_error'] = rng.choice([True, False])
        if rng.random() < 0.2:
            kw['mask'] = rng.randint(0, 7)
        if rng.random() < 0.15 and cls in ('latin1', 'kana', 'utf8', 'cyr', 'ascii'):
            kw['encoding'] = rng.choice(['utf-8', 'latin1', 'shift_jis', 'cp1252', 'utf-16-be'])
        if rng.random() < 0.1:
            kw['mode'] = rng.choice(['byte', 'alphanumeric', 'numeric', 'kanji'])
        # length: relative to the capacity of one symbol of the version in play
        lvl = kw.get('error', 'L')
        vv = kw.get('version', rng.choice([1, 2, 3, 5]))
        per = gen.max_chars(vv, lvl, {'digits': 'numeric', 'alnum': 'alphanumeric', 'int': 'numeric', 'kana': 'kanji',
                                     'sjis_bytes': 'kanji'}.get(cls, 'byte')) or 10
        mult = rng.choice([0.3, 0.9, 1.0, 1.1, 1.5, 2, 2.5, 3, 5, 8, 12, 15, 15.9, 16.5])
        length = max(1, int(per * mult) + rng.randint(-2, 2))
        if cls in ('kana', 'utf8', 'cyr', 'sjis_bytes'):
            length *= 2
        if cls == 'int':
            length = min(length, 600)
            content = rng.randint(10 ** (length - 1), 10 ** length - 1)
            if rng.random() < 0.15:
                content = -content
        else:
            content = gen.content_of(rng, cls, length)
        cases.append({'fn': 'make_sequence', 'content': content, 'kw': kw, 'tag': cls, 'sel': sel})
    # version= path: systematic length sweep (the symbol count estimate has many boundaries; lengths divisible by the
    # group size of the mode are a class of their own)
    for v in ((1, 2) if tier == 'quick' else (1, 2, 3, 4, 5)):
        for lv in oracle.LEVELS:
            for mode, step in (('numeric', 3), ('alphanumeric', 2), ('byte', 1)):
                per = gen.max_chars(v, lv, mode)
                top = per * 16
                lens = list(range(step, top, step * (1 if tier == 'thorough' else 2)))
                if tier == 'quick':
                    lens = rng.sample(lens, min(len(lens), 60))
                for n_ in lens:
                    cases.append({'fn': 'make_sequence', 'content': gen.content_for_bits(mode, n_), 'kw': {'version': v, 'error': lv},
                                  'tag': 'version-sweep-' + mode, 'sel': 'version'})
    # symbol counts outside 1..16 must never produce a sequence
    for sc in (0, 17, 18, 32, -1):
        for length in (40, 400):
            cases.append({'fn': 'make_sequence', 'content': gen.content_for_bits('byte', length), 'kw': {'symbol_count': sc},
                          'tag': 'count-out-of-range', 'sel': 'symbol_count'})
    # single-byte explicit encodings whose bytes differ from the default text -> bytes policy
    for _ in range(40 if tier == 'quick' else 600):
        enc, alphabet = rng.choice([('cp1251', 'Приветмир, '), ('iso-8859-5', 'Приветмир '), ('iso-8859-7', 'αβγδε '),
                                    ('cp1252', 'Märchen Füße€ '), ('iso-8859-15', 'Füße€ ')])
        content = gen.from_alphabet(rng, rng.randint(20, 120), alphabet)
        cases.append({'fn': 'make_sequence', 'content': content, 'kw': {'symbol_count': rng.randint(2, 5), 'encoding': enc},
                      'tag': 'single-byte-encoding', 'sel': 'symbol_count'})
    # always: version and symbol count both given, lengths around what k symbols of that version hold (the version is
    # re-fitted to the longest chunk then: every symbol holds its chunk)
    for v in (1, 2, 3):
        for lv in ('L', 'M', 'H'):
            for mode in ('byte', 'numeric', 'alphanumeric'):
                per = gen.max_chars(v, lv, mode)
                for k in (2, 3, 5):
                    for frac in (0.8, 0.9, 0.95, 1.0, 1.05):
                        n_ = max(k, int(per * k * frac))
                        content = gen.content_for_bits(mode, n_)
                        if mode == 'byte' and (n_ + k) % 2:
                            content = content.encode('ascii')
                        cases.append({'fn': 'make_sequence', 'content': content, 'kw': {'version': v, 'symbol_count': k, 'error': lv},
                                      'tag': 'both-sweep', 'sel': 'both'})
    # always (no sampling): a sequence of one - short content that would fit a Micro QR symbol, with and without level
    for content in ('1', '12345', 'AB', 'HELLO WORLD', 'ab', 'abcdefghijklmno', '点', '点茗', b'\x01\x02', 7, "':"):
        for kw in ({'symbol_count': 1}, {'symbol_count': 1, 'error': 'L'}, {'symbol_count': 1, 'error': 'Q'},
                   {'symbol_count': 1, 'boost_error': False}, {'version': 1}, {'version': 1, 'symbol_count': 1}):
            cases.append({'fn': 'make_sequence', 'content': content, 'kw': dict(kw), 'tag': 'single-small', 'sel': 'symbol_count'})
    # admissible requests (one mode, enough characters, far below the capacity of 16 symbols): must be answered
    # with a sequence, in every mode incl. a requested hanzi / kanji mode and for texts outside JIS X 0208
    for _ in range(120 if tier == 'quick' else 3000):
        cls, mode = rng.choice([('digits', None), ('digits', 'numeric'), ('alnum', None), ('alnum', 'alphanumeric'),
                                ('ascii', 'byte'), ('ascii', None), ('kana', None), ('kana', 'kanji'), ('hanzi', 'hanzi'),
                                ('hanzi', 'hanzi'), ('hanzi', None), ('cp932_only', None), ('cp932_only', None),
                                ('utf8', None), ('upper', None), ('unicode_digits', None), ('unicode_digits', None)])
        k = rng.randint(2, 8)
        content = gen.content_of(rng, cls, rng.randint(k, 90))
        if len(content) < k:
            continue
        kw = {'symbol_count': k}
        if mode:
            kw['mode'] = rng.choice([mode, mode.upper()])
        if rng.random() < 0.4:
            kw['error'] = rng.choice(['L', 'M', 'Q', 'H'])
        cases.append({'fn': 'make_sequence', 'content': content, 'kw': kw, 'tag': 'must-accept-' + cls, 'sel': 'symbol_count'})
    rng.shuffle(cases)
    return cases


def xor_bytes(data):
    return reduce(lambda a, b: a ^ b, data, 0)


def per_chunk_policy(content, encoding, mode, sym_payloads):
    if isinstance(content, (bytes, bytearray)) or not sym_payloads or any(p is None for p in sym_payloads):
        return None
    text = str(content)
    n = len(sym_payloads)
    k, m = divmod(len(text), n)
    chunks = [text[i * k + min(i, m):(i + 1) * k + min(i + 1, m)] for i in range(n)]
    for ch, (got, first_segment, truncated, version, seg_mode) in zip(chunks, sym_payloads):
        if mode == 'hanzi':
            encs = ['gb2312']
        else:
            encs = [encoding] if encoding else ['iso-8859-1', 'shift_jis', 'utf-8']
        want = None
        for e in encs:
            try:
                want = ch.encode(e)
                break
            except (UnicodeError, LookupError):
                continue
        if want is None:
            return False
        if not truncated and seg_mode == 'byte' and len(want) >= 2 ** qr.cci_len(version, 'byte'):
            # the chunk has more bytes than the character count indicator of this version can say (the count wraps):
            # the same overflow, only that the reader is not left with a dangling segment
            truncated = True
        if truncated:
            got = first_segment      # what follows the first segment of such a symbol is read from cut-off bits
            # an overflowing symbol: the readable part must at least start like its chunk (two bytes of slack for
            # the cut inside a count unit)
            if not (want.startswith(got) or want.startswith(got[:max(0, len(got) - 2)])):
                return False
        elif got != want:
            return False
    return True


def per_chunk_mode_conflict(case):
    """Classification aid for the recorded chunking finding (the same mechanism seen as a refusal): the mode is taken
    from the whole content, the text is cut by characters and every chunk is converted to bytes on its own - is there a
    chunk whose own bytes are not representable in the mode of the whole? (Then the pinned implementation has to refuse.)"""
    content, kw = case['content'], case['kw']
    if not isinstance(content, str) or not kw.get('symbol_count'):
        return None
    try:
        a = oracle.normalize_args(dict(kw, content=content))
        whole = oracle.spec_parts(content, a.get('mode'), a.get('encoding'))[0]
    except Exception:  # noqa: BLE001
        return None
    n = kw['symbol_count']
    k, m = divmod(len(content), n)
    chunks = [content[i * k + min(i, m):(i + 1) * k + min(i + 1, m)] for i in range(n)]
    encs = ['gb2312'] if whole['mode'] == 'hanzi' else ([kw['encoding']] if kw.get('encoding') else ['iso-8859-1', 'shift_jis', 'utf-8'])
    for ch in chunks:
        data = None
        for e in encs:
            try:
                data = ch.encode(e)
                break
            except (UnicodeError, LookupError):
                continue
        if data is None or not oracle.representable(whole['mode'], data):
            return True
    return False


def check_sequence(case, seq, rec):
    """The offline checker over one returned sequence. Returns a list of symptoms."""
    kw = case['kw']
    a = oracle.normalize_args(dict(kw, content=case['content']))
    symptoms = []
    n = len(seq)
    if not 1 <= n <= 16:
        symptoms.append('count-out-of-range')
    if kw.get('symbol_count') is not None and kw.get('version') is None and n != kw['symbol_count']:
        symptoms.append('count-not-as-requested')
    info = {'n': n, 'versions': [], 'levels': []}
    payload = b''
    headers = []
    sym_payloads = []
    for i, sym in enumerate(seq):
        if sym.is_micro:
            symptoms.append('micro-symbol')
        devs, s, _ = oracle.check_symbol(sym.matrix, {}, None, {'C02', 'C03'})
        if s is None:
            symptoms.append('symbol-unreadable')
            sym_payloads.append(None)
            continue
        # an unparsable (overflowing) symbol: only its first segment is meaningful, what follows is read from cut-off bits
        sym_payloads.append((s.payload, s.segments[0]['payload'] if s.segments else b'',
                             s.parse_error is not None, s.version, s.segments[0]['mode'] if s.segments else None))
        rec.count('symbols_decoded_in_sequences')
        for prop, kind, detail in devs:
            symptoms.append('symbol-%s-%s' % (prop, kind))
        info['versions'].append(s.version)
        info['levels'].append(s.level)
        if s.parse_error is not None:
            symptoms.append('chunk-overflow')
            info.setdefault('overflow_symbols', []).append(i)
            info['parse_error'] = s.parse_error
        payload += s.payload
        headers.append(s.sa)
        if kw.get('version') is not None and kw.get('symbol_count') is None and s.version != a['version_name']:
            symptoms.append('version-not-as-requested')
        if kw.get('mask') is not None and s.mask != a['mask_int']:
            symptoms.append('mask-not-as-requested')
    try:
        parts = oracle.spec_parts(case['content'], a.get('mode'), a.get('encoding'))
        expected = oracle.expected_payload(parts)
    except (oracle.Refuse, UnicodeError, LookupError):
        expected = None
    info['expected_len'] = None if expected is None else len(expected)
    # classification aid for the recorded chunking finding: is every symbol's payload what "cut the text by
    # characters, let each chunk pick Latin-1 / Shift JIS / UTF-8 (or use the explicit encoding)" yields?
    info['per_chunk_policy'] = per_chunk_policy(case['content'], kw.get('encoding'), a.get('mode'), sym_payloads)
    info['decoded_len'] = len(payload)
    if expected is not None:
        info['mode'] = parts[0]['mode']
        info['codec'] = parts[0]['codec']
        if payload != expected and 'chunk-overflow' not in symptoms:
            symptoms.append('payload-mismatch')
            info['decoded'] = payload[:40]
            info['expected'] = expected[:40]
    if n > 1:
        if any(h is None for h in headers):
            symptoms.append('header-missing')
        else:
            if [h[0] for h in headers] != list(range(n)):
                symptoms.append('header-index')
            if any(h[1] != n - 1 for h in headers):
                symptoms.append('header-total')
            if len({h[2] for h in headers}) != 1:
                symptoms.append('parity-differs-between-symbols')
            elif expected is not None and headers[0][2] != xor_bytes(expected):
                symptoms.append('parity-wrong')
                info['parity'] = headers[0][2]
                info['parity_expected'] = xor_bytes(expected)
                # parity of the message under the default text -> bytes policy (classification aid)
                try:
                    dflt = oracle.expected_payload(oracle.spec_parts(case['content'], None, None))
                    info['parity_default_policy'] = xor_bytes(dflt)
                except Exception:  # noqa: BLE001
                    pass
    elif headers and headers[0] is not None:
        h = headers[0]
        if h[0] != 0 or h[1] != 0:
            symptoms.append('header-index')
    # the sequence object itself: a list of its symbols - iterating twice, len(), indexing and slicing agree
    try:
        first = [bytes(b''.join(bytes(r) for r in q.matrix)) for q in seq]
        again = [bytes(b''.join(bytes(r) for r in q.matrix)) for q in seq]
        by_index = [bytes(b''.join(bytes(r) for r in seq[i].matrix)) for i in range(len(seq))]
        rec.count('sequence_objects_walked')
        if not (first == again == by_index) or len(first) != n or \
                bytes(b''.join(bytes(r) for r in seq[-1].matrix)) != first[-1] or len(seq[:1]) != 1:
            symptoms.append('sequence-object-inconsistent')
        if n == 1:
            # a sequence of one hands attribute access over to its only symbol
            q0 = seq[0]
            if (seq.designator, seq.version, seq.error, seq.mask, seq.is_micro) != (q0.designator, q0.version, q0.error, q0.mask, q0.is_micro):
                symptoms.append('single-symbol-delegation')
    except Exception as ex:  # noqa: BLE001
        symptoms.append('sequence-object-raises-%s' % type(ex).__name__)
    return symptoms, info


def run_cases(cases, rec, tier='quick', seed='0'):
    import segno
    monitors.install(rec, set())
    monitors.start_reach()
    for case in cases:
        rec.case = case
        rec.count('evaluations')
        try:
            seq = segno.make_sequence(case['content'], **case['kw'])
        except ValueError as ex:
            rec.count('refused:%s' % type(ex).__name__)
            if str(case.get('tag', '')).startswith('must-accept'):
                rec.deviation('C08', 'admissible-sequence-refused', {'type': type(ex).__name__, 'message': str(ex)[:200],
                                                                     'per_chunk_mode_conflict': per_chunk_mode_conflict(case)})
            continue
        except Exception as ex:  # noqa: BLE001
            rec.count('refused:%s' % type(ex).__name__)
            rec.deviation('C08', 'exception-class', {'type': type(ex).__name__, 'message': str(ex)[:200]})
            continue
        rec.count('sequences_checked')
        symptoms, info = check_sequence(case, seq, rec)
        n = len(seq)
        if n > 1:
            rec.count('multi_symbol_sequences')
        sel = case.get('sel') or '+'.join(k for k in ('version', 'symbol_count') if case['kw'].get(k) is not None)
        if sel == 'symbol_count':
            rec.count('sequences_by_symbol_count')
        if sel == 'version':
            rec.count('sequences_by_version')
        rec.seen('%s|%s|%d|%s' % (case.get('tag'), sel, n, info['versions'][:1]))
        if n > 1:
            rec.sample({'call': core_short(case), 'symbols': n, 'designators': [q.designator for q in seq][:4]})
        if symptoms:
            rec.deviation('C08', 'sequence', dict(info, symptoms=sorted(set(symptoms))))
    monitors.stop_reach(rec)
    rec.case = None


def core_short(case):
    from vmon import core
    return core.short(core.enc(case), 200)
