"""C02 - geometry, function patterns, format/version information, metadata."""
import random

from vmon import gen, oracle
from vmon.props import common

PROPERTY = 'C02'
RULE = ('exhaustive enumeration of all 1312 (version, level, mask) triples (44 versions x their levels x 8/4 masks) '
        'with requested version/error/mask and boost off, k random contents of random available modes per triple '
        '(quick k=2, thorough k=12), plus automatically chosen symbols; every emitted matrix is checked module by '
        'module against the independent function-pattern map, both format copies against the computed BCH(15,5) '
        'word of the (level, mask) that makes all RS syndromes vanish, both version copies against the computed '
        'Golay(18,6) word, and the QRCode properties against what is in the matrix; distinct = decoded '
        '(version, level, mask, modes) tuples')
ASSUMPTIONS = common.ASSUME_QR
REQUIRED = ['cases_under_python_O', 'clones_compared', 'evaluations', 'encode_observed', 'symbols_decoded', 'triples_seen', 'all_1312_triples_observed']
EXHAUSTIVE = {'quick': '(version, level, mask) triples: 1312 of 1312', 'thorough': '(version, level, mask) triples: 1312 of 1312'}
TIMEOUT = {'quick': 3600, 'thorough': 21600}
OPT_SLICE = {'quick': 120, 'thorough': 1500}     # cases re-run by one more worker under python -O (core.run_sharded)


def triples():
    out = []
    for v in oracle.ALL_VERSIONS:
        for lv in oracle.levels_of(v):
            for m in range(4 if isinstance(v, str) else 8):
                out.append((v, lv, m))
    return out


def gen_cases(tier, seed):
    rng = random.Random(seed * 104729 + 2)
    k = 2 if tier == 'quick' else 40
    cases = []
    for (v, lv, m) in triples():
        for _ in range(k):
            modes = [x for x in ('numeric', 'alphanumeric', 'byte', 'kanji', 'hanzi') if oracle.mode_available(v, x)]
            mode = rng.choice(modes)
            n = gen.max_chars(v, lv, mode)
            if not n:
                mode = 'numeric'
                n = gen.max_chars(v, lv, mode)
            cnt = rng.randint(1, n) if rng.random() < 0.8 else n
            if mode == 'numeric':
                content = gen.digits(rng, cnt)
            elif mode == 'alphanumeric':
                content = gen.alnum(rng, cnt)
                if content.isdigit():
                    content = 'A' + content[1:]
            elif mode == 'byte':
                content = gen.raw_bytes(rng, cnt) if rng.random() < 0.5 else gen.latin1_text(rng, cnt)
                if isinstance(content, bytes) and (qr_auto(content) != 'byte'):
                    content = b'a' + content[1:]
                if isinstance(content, str) and qr_auto(content.encode('latin1')) != 'byte':
                    content = 'a' + content[1:]
            elif mode == 'kanji':
                content = gen.sjis_pairs(rng, cnt)
            else:
                content = gen.from_alphabet(rng, cnt, gen.HANZI)
            kw = {'version': rng.choice(gen.VERSION_SPELLINGS(v)), 'mask': m, 'boost_error': False}
            if lv:
                kw['error'] = lv
            if mode == 'hanzi':
                kw['mode'] = 'hanzi'
            cases.append(common.mk(content, tag='triple', want=[v, lv, m], **kw))
    # automatically chosen symbols
    cases += common.random_cases(rng, 600 if tier == 'quick' else 30000, heavy=True)
    # always: every combination of two to four different modes in one symbol (the reported mode of such a symbol is None),
    # several parts of one mode (merged: one segment, that mode), empty parts
    import itertools
    sample = {'numeric': '123', 'alphanumeric': 'AB-', 'byte': 'abc', 'kanji': '点茗', 'hanzi': ('汉字', 13)}
    for r in (2, 3, 4, 5):
        for combo in itertools.permutations(sample, r) if r < 4 else itertools.combinations(sample, r):
            if r == 3 and rng.random() < 0.5 and tier == 'quick':
                continue
            cases.append(common.mk([sample[m_] for m_ in combo], tag='mode-mix', fn=rng.choice(['make', 'make_qr']), micro=False) if False else
                         common.mk([sample[m_] for m_ in combo], tag='mode-mix', fn='make_qr'))
    for parts in (['12', '345'], ['AB', 'CD', 'EF'], ['abc', 'def'], ['', 'ABC'], ['123', ''], [('汉', 13), ('字', 13)], ['点', '茗']):
        cases.append(common.mk(parts, tag='mode-mix'))
    rng.shuffle(cases)
    return cases


def qr_auto(data):
    from refmodel import qr
    return qr.expected_auto_mode(data)


def after(case, q, ex, rec):
    want = case['kw'].pop('want', None) if False else case.get('want')
    from vmon import monitors
    last = monitors.State.last
    if case.get('tag') == 'triple':
        if ex is not None:
            rec.deviation('C02', 'triple-refused', {'error': repr(ex)})
            return
        s = last[3] if last else None
        if s is not None:
            got = [s.version, s.level, s.mask]
            rec.count('triples_seen')
            rec.extra.setdefault('triples', [])
            rec.extra['triples'].append('%s|%s|%s' % tuple(got))
            if got != case['want']:
                rec.deviation('C02', 'matrix-differs-from-request', {'in_matrix': got, 'requested': case['want']})


def run_cases(cases, rec, tier='quick', seed='0'):
    # 'want' travels beside the call, not inside the keyword arguments
    for c in cases:
        if 'want' in c.get('kw', {}):
            c['want'] = c['kw'].pop('want')
    common.run_encode_cases(cases, rec, {'C02'}, after=after)


def post_merge(m, tier):
    t = set(m['extra'].get('triples', []))
    m['extra'].pop('triples', None)
    if len(t) == 1312:
        m['counters']['all_1312_triples_observed'] = 1
    return {'distinct_triples_observed': len(t), 'triples_total': 1312}


def main_phase(tier, seed, rec):
    """Thorough tier: the repository's own test-suite as one more workload under the same monitor."""
    if tier == 'thorough':
        common.suite_under_monitors({'C02'}, rec)
