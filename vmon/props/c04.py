"""C04 - smallest fitting symbol is chosen; overflow is reported, never truncated."""
import random

from vmon import gen, monitors, oracle
from vmon.props import common

PROPERTY = 'C04'
RULE = ('every (version, level, mode) capacity boundary of the independent capacity model, both sides (n and n+1 '
        'characters): automatic version with that level must be the first admissible fitting version, requested version '
        'must be accepted at n and refused with DataOverflowError at n+1; crossed with micro in {None, True, False}, eci, '
        'boost, multi-part lists and random lengths; accepted symbols are decoded and their segment list re-costed in '
        'every smaller admissible version; distinct = (version, level, mode, side, variant) boundary cases exercised')
ASSUMPTIONS = common.ASSUME_QR + ['multi-part content: a version is accepted if it is minimal under either segmentation (DESIGN 4.1)']
REQUIRED = ['cases_under_python_O', 'evaluations', 'encode_observed', 'symbols_decoded', 'boundary_cases', 'overflow_expected_and_raised',
            'requested_version_accepted']
TIMEOUT = {'quick': 3600, 'thorough': 21600}
OPT_SLICE = {'quick': 120, 'thorough': 1500}     # cases re-run by one more worker under python -O (core.run_sharded)


def gen_cases(tier, seed):
    rng = random.Random(seed * 32452843 + 4)
    cases = []
    bnd = gen.boundaries()
    for (v, lv, mode, n) in bnd:
        variants = [{}]
        if tier == 'thorough':
            variants = [{}, {'micro': False}, {'micro': True}, {'boost_error': False}]
        elif rng.random() < 0.25:
            variants.append(rng.choice([{'micro': False}, {'micro': True}, {'boost_error': False}]))
        for var in variants:
            if var.get('micro') is True and not isinstance(v, str):
                continue
            for side, cnt in (('fit', n), ('over', n + 1)):
                content = gen.content_for_bits(mode, cnt)
                base = dict(var)
                if lv:
                    base['error'] = lv
                if mode == 'hanzi':
                    base['mode'] = 'hanzi'
                # automatic version at this level
                cases.append(common.mk(content, tag='auto', b=[str(v), lv, mode, side], **base))
                # requested version
                kw = dict(base)
                kw['version'] = v
                if isinstance(v, str):
                    kw.pop('micro', None)
                elif kw.get('micro'):
                    continue
                cases.append(common.mk(content, tag='requested', b=[str(v), lv, mode, side], **kw))
    # eci boundaries (byte mode, utf-8: 12 extra bits)
    for (v, lv, mode, n) in bnd:
        if mode == 'byte' and not isinstance(v, str) and (tier == 'thorough' or v % 4 == 1):
            for d in (-2, -1, 0, 1):
                k = n + d
                if k > 0:
                    for version in (None, v):
                        for enc in ('utf-8', rng.choice(['latin1', 'ISO-8859-1', 'L1', 'cp1252', 'iso-8859-15'])):
                            kw = {'error': lv, 'encoding': enc, 'eci': True}
                            if version:
                                kw['version'] = version
                            c = common.mk('a' * k, tag='eci', **kw)
                            if rng.random() < 0.5:
                                # the same length without / with an ECI header just before, in the same process
                                other = dict(kw)
                                other['encoding'] = 'utf-8' if enc != 'utf-8' else None
                                other.pop('version', None)
                                if other['encoding'] is None:
                                    other.pop('encoding')
                                c['pre'] = common.mk('a' * k, **other)
                            cases.append(c)
    # multi-part boundaries: several segments (mixed modes; with eci several byte segments in different
    # non-default encodings, each with its own 12 bit ECI header), last part stretched to the exact capacity
    enc_text = {'utf-8': 'ä', 'cp1251': 'я', 'iso-8859-15': 'é', 'cp1252': 'ü', None: 'a'}
    versions = [v for v in oracle.ALL_VERSIONS if not isinstance(v, str)]
    for v in (versions if tier == 'thorough' else [1, 2, 3, 5, 9, 10, 11, 26, 27, 40]):
        for lv in oracle.LEVELS:
            for trial in range(3 if tier == 'quick' else 6):
                eci = trial % 2 == 0
                k = rng.randint(2, 3)
                if eci:
                    encs = rng.sample(['utf-8', 'cp1251', 'iso-8859-15', 'cp1252'], k)
                    parts = [(enc_text[e] * rng.randint(1, 4), None, e) for e in encs]
                    modes = ['byte'] * k
                else:
                    modes = [rng.choice(['numeric', 'alphanumeric', 'byte', 'kanji']) for _ in range(k)]
                    # adjacent parts of the same mode may be merged by the encoder: keep modes distinct
                    for i in range(1, k):
                        while modes[i] == modes[i - 1]:
                            modes[i] = rng.choice(['numeric', 'alphanumeric', 'byte', 'kanji'])
                    parts = [gen.content_for_bits(m, rng.randint(1, 5)) for m in modes]
                cap = oracle.capacity(v, lv)

                def cost(ps):
                    sp = oracle.spec_parts(ps)
                    return max(oracle.bits_of(v, c) or 10 ** 9 for c in oracle.segmentations(sp, eci))
                last = parts[-1]
                unit = (last[0][0] if isinstance(last, tuple) else last[0])
                def with_last(n):
                    if isinstance(last, tuple):
                        return parts[:-1] + [(unit * n, None, last[2])]
                    return parts[:-1] + [gen.content_for_bits(modes[-1], n)]
                lo, hi, best = 1, 8000, None
                while lo <= hi:
                    mid = (lo + hi) // 2
                    if cost(with_last(mid)) <= cap:
                        best = mid
                        lo = mid + 1
                    else:
                        hi = mid - 1
                if best is None:
                    continue
                for n in (best, best + 1):
                    for version in (None, v):
                        kw = {'error': lv, 'micro': False}
                        if eci:
                            kw['eci'] = True
                        if version:
                            kw['version'] = version
                        cases.append(common.mk(with_last(n), tag='multi-boundary', b=[str(v), lv, 'multi' + ('-eci' if eci else ''), 'fit' if n == best else 'over'], **kw))
    # several Hanzi segments (each carries its own 4 bit subset indicator) separated by another mode; the tuple form with
    # the ISO mode indicator as mode constant is the only way to give one part a mode of its own
    for v in (versions if tier == 'thorough' else [1, 2, 5, 9, 10, 27]):
        for lv in oracle.LEVELS:
            k = rng.randint(2, 3)
            head = []
            for i in range(k - 1):
                head.append(('汉' * rng.randint(1, 3), 13))
                head.append(gen.content_for_bits(rng.choice(['numeric', 'byte']), rng.randint(1, 3)))
            cap = oracle.capacity(v, lv)
            best = None
            for n in range(1, 2000):
                segs = oracle.segmentations(oracle.spec_parts(head + [('汉' * n, 13)]), False)
                c = max(oracle.bits_of(v, s) or 10 ** 9 for s in segs)
                if c > cap:
                    break
                best = n
            if best is None:
                continue
            for n in (best, best + 1):
                for version in (None, v):
                    kw = {'error': lv, 'micro': False}
                    if version:
                        kw['version'] = version
                    cases.append(common.mk(head + [('汉' * n, 13)], tag='multi-hanzi', b=[str(v), lv, 'multi-hanzi', 'fit' if n == best else 'over'], **kw))
    # two adjacent parts of the same mode that cannot be concatenated at bit level (first part off the group boundary): the
    # encoder has to keep two segments and must budget two headers
    for v in (versions if tier == 'thorough' else [1, 2, 4, 9, 10, 26, 27]):
        for lv in oracle.LEVELS:
            for mode, first in (('numeric', rng.choice([1, 2, 4, 5])), ('alphanumeric', rng.choice([1, 3, 5]))):
                cap = oracle.capacity(v, lv)
                head = gen.content_for_bits(mode, first)
                best = None
                for n in range(1, 8000):
                    c = oracle.bits_of(v, [(mode, first, False), (mode, n, False)])
                    if c is None or c > cap:
                        break
                    best = n
                if best is None:
                    continue
                for n in (best, best + 1):
                    for version in (None, v):
                        kw = {'error': lv, 'micro': False}
                        if version:
                            kw['version'] = version
                        cases.append(common.mk([head, gen.content_for_bits(mode, n)], tag='same-mode-two-segments',
                                               b=[str(v), lv, 'two-' + mode, 'fit' if n == best else 'over'], **kw))
    # many short segments of alternating modes: every segment costs more header bits in a larger version, so content that
    # fits a Micro (or small) symbol need not fit the next ones; automatic choice and requested versions
    for trial in range(160 if tier == 'quick' else 3000):
        k = rng.randint(4, 12)
        modes = []
        for i in range(k):
            m = rng.choice(['numeric', 'alphanumeric', 'byte'])
            while modes and m == modes[-1]:
                m = rng.choice(['numeric', 'alphanumeric', 'byte'])
            modes.append(m)
        parts = [gen.content_for_bits(m, rng.choice([1, 1, 2, 3])) for m in modes]
        kw = {}
        if rng.random() < 0.6:
            kw['error'] = rng.choice(['L', 'M', 'Q'])
        r = rng.random()
        if r < 0.45:
            kw['version'] = rng.choice(['M3', 'M4', 1, 1, 2, 2, 3])
        elif r < 0.6:
            kw['micro'] = rng.choice([True, False])
        cases.append(common.mk(parts, tag='many-segments', **kw))
    # random lengths, all residues, multi-part
    n_rand = 600 if tier == 'quick' else 8000
    for _ in range(n_rand):
        mode = rng.choice(['numeric', 'alphanumeric', 'byte', 'kanji'])
        cnt = rng.choice([rng.randint(1, 40), rng.randint(1, 400), rng.randint(1, 3000)])
        kw = {}
        if rng.random() < 0.6:
            kw['error'] = rng.choice(['L', 'M', 'Q', 'H'])
        if rng.random() < 0.3:
            kw['micro'] = rng.choice([True, False])
        if rng.random() < 0.2:
            kw['eci'] = True
        cases.append(common.mk(gen.content_for_bits(mode, cnt), tag='random', **kw))
    for _ in range(n_rand // 3):
        parts = []
        for _ in range(rng.randint(2, 4)):
            mode = rng.choice(['numeric', 'alphanumeric', 'byte', 'kanji'])
            parts.append(gen.content_for_bits(mode, rng.randint(1, 30)))
        kw = {}
        if rng.random() < 0.5:
            kw['error'] = rng.choice(['L', 'M', 'Q', 'H'])
        cases.append(common.mk(parts, tag='multi', **kw))
    cases += common.big_int_cases(rng, tier)
    # several non-mergeable segments that fit M4 but not version 1 (M4 has shorter mode and count indicators: per segment it
    # is cheaper than version 1 by more than the capacity differs) - the order M1 < ... < M4 < 1 is not an order of capacity
    for lv in ('L', 'M', 'Q'):
        found = 0
        for k_ in range(3, 10):
            for trial in range(400):
                parts = []
                last = None
                for _ in range(k_):
                    m_ = rng.choice([x for x in ('numeric', 'alphanumeric', 'byte') if x != last])
                    last = m_
                    parts.append(gen.content_for_bits(m_, rng.choice([1, 1, 2, 3, 4])))
                try:
                    segs = oracle.segmentations(oracle.spec_parts(parts, None, None), False)
                except Exception:  # noqa: BLE001
                    continue
                b4 = [oracle.bits_of('M4', c) for c in segs]
                b1 = [oracle.bits_of(1, c) for c in segs]
                if any(b is None for b in b4 + b1):
                    continue
                if max(b4) <= oracle.capacity('M4', lv) and min(b1) > oracle.capacity(1, lv):
                    found += 1
                    cases.append(common.mk(parts, tag='fits-m4-not-v1', b=['M4', lv, 'segments', 'fits-m4-not-v1'], error=lv, boost_error=False))
                    cases.append(common.mk(parts, tag='fits-m4-not-v1', b=['M4', lv, 'segments', 'fits-m4-not-v1'], error=lv))
                    if found >= 6:
                        break
            if found >= 6:
                break
    # eci=True with every spelling class of the encoding name at the capacity of a version: the 12 header bits are counted
    # exactly when they are written (judged here by the version that is chosen / refused)
    cases += common.eci_boundary_cases(rng, tier, versions=[1, 2, 9, 10] if tier == 'quick' else None)
    # many tiny segments around the steps of the character count indicator: the cost of every segment grows at versions
    # 10 and 27, so such a content can fit version 9 and not version 10 (26 / 27) - "fits" is not monotone in the version
    for (lo, hi) in ((9, 10), (26, 27)):
        for lv in oracle.LEVELS:
            found = 0
            for unit in (['a', '1'], ['a', '12'], ['ab', '1', 'A$'], ['a' * 3, '123'], ['a' * 40, '1'], ['abc' * 30, '12', 'AB']):
                for p_ in range(2, 400):
                    parts = (unit * p_)
                    try:
                        sp = oracle.spec_parts(parts, None, None)
                    except Exception:  # noqa: BLE001
                        break
                    segs = oracle.segmentations(sp, False)
                    blo = [oracle.bits_of(lo, c) for c in segs]
                    bhi = [oracle.bits_of(hi, c) for c in segs]
                    if any(b is None for b in blo + bhi):
                        break
                    if min(blo) > oracle.capacity(lo, lv):
                        break
                    if max(blo) <= oracle.capacity(lo, lv) and min(bhi) > oracle.capacity(hi, lv):
                        found += 1
                        for kw in ({}, {'version': lo}, {'version': hi}, {'version': hi + 1}):
                            cases.append(common.mk(list(parts), tag='non-monotone-fit', b=[str(lo), lv, 'segments', 'cci-step'],
                                                   error=lv, boost_error=False, micro=False, **kw))
            if found:
                cases.append(common.mk(['a', '1'], tag='non-monotone-fit-witnesses-%d' % found))
    # degenerate parts at a capacity boundary: an int 0 part, an empty str/bytes part (each still is content /
    # a segment), a one-part list - with the rest of the list exactly filling the version
    for v in oracle.MICRO + [1, 2, 9, 10, 26, 27, 40]:
        for lv in oracle.levels_of(v):
            for mode in ('numeric', 'alphanumeric', 'byte'):
                n = gen.max_chars(v, lv, mode)
                if not n or n < 2:
                    continue
                kw = {'error': lv} if lv else {}
                if not isinstance(v, str):
                    kw['micro'] = False
                kw['boost_error'] = False
                body = gen.content_for_bits(mode, n)
                for parts in ([body, 0], [0, body], [body[:-1], 0], [body, ''], ['', body], [body, b''], [body],
                              [body[:-1], (0, None)], [body[:n // 2], '', body[n // 2:]]):
                    cases.append(common.mk(parts, tag='degenerate-part', b=[str(v), lv, mode, 'degenerate'], **kw))
                    if rng.random() < 0.3:
                        cases.append(common.mk(parts, tag='degenerate-part', b=[str(v), lv, mode, 'degenerate-req'],
                                               **dict(kw, version=v)))
    if tier == 'thorough':
        for n in range(1, 7090, 37):
            cases.append(common.mk(gen.content_for_bits('numeric', n), tag='stride', error='L'))
        for n in range(1, 2954, 29):
            cases.append(common.mk(gen.content_for_bits('byte', n), tag='stride', error='L'))
    rng.shuffle(cases)
    return cases


def expectation(case):
    """Specification-level expectation for a single call: (lo, hi) admissible
    automatic versions or None if nothing fits; for a requested version whether
    it fits (True / False / 'either')."""
    a = oracle.normalize_args(dict(case['kw'], content=case['content']))
    parts = oracle.spec_parts(case['content'], a.get('mode'), a.get('encoding'))
    eci = bool(a.get('eci'))
    micro = a.get('micro')
    if case.get('fn') == 'make_qr':
        micro = False
    if case.get('fn') == 'make_micro':
        micro = True
    error = a['error_name']
    cands = oracle.segmentations(parts, eci)
    req = a['version_name']
    if req is not None:
        lvl = error if error is not None else (None if req == 'M1' else 'L')
        cap = oracle.capacity(req, lvl)
        fits = []
        for c in cands:
            b = oracle.bits_of(req, c)
            fits.append(cap is not None and b is not None and b <= cap)
        return ('requested', True if all(fits) else (False if not any(fits) else 'either'))
    fits = [oracle.first_fit(c, micro, eci, error) for c in cands]
    if all(f is None for f in fits):
        return ('auto', None)
    if any(f is None for f in fits):
        return ('auto', 'either')
    return ('auto', (min(fits, key=oracle.version_index), max(fits, key=oracle.version_index)))


def after(case, q, ex, rec):
    if case.get('b'):
        rec.count('boundary_cases')
        rec.seen('|'.join(str(x) for x in case['b']) + '|' + case.get('tag', '') + '|' +
                 ','.join('%s=%s' % kv for kv in sorted(case['kw'].items()) if kv[0] in ('micro', 'boost_error')))
    try:
        kind, want = expectation(case)
    except (oracle.Refuse, UnicodeError, LookupError):
        return
    from segno.encoder import DataOverflowError  # the public exception class of the library under test
    overflow = isinstance(ex, DataOverflowError)
    if ex is not None and not overflow:
        if isinstance(ex, ValueError):
            # another documented refusal (excluded combination): not a capacity verdict
            rec.count('refused_other')
            from vmon.props.c14 import must_refuse
            excluded = must_refuse({'fn': case.get('fn', 'make'), 'kw': case['kw']})
            if kind == 'requested' and want is True and not excluded:
                rec.deviation('C04', 'fitting-request-refused', {'error': repr(ex)})
            return
        rec.deviation('C04', 'wrong-exception', {'error': repr(ex)})
        return
    if kind == 'requested':
        if want is True:
            if overflow:
                rec.deviation('C04', 'fitting-request-refused', {'error': str(ex)})
            else:
                rec.count('requested_version_accepted')
        elif want is False:
            if not overflow:
                rec.deviation('C04', 'overflow-accepted', {'got': q.designator})
            else:
                rec.count('overflow_expected_and_raised')
    else:
        if want is None:
            if not overflow:
                rec.deviation('C04', 'overflow-accepted', {'got': q.designator})
            else:
                rec.count('overflow_expected_and_raised')
        elif want == 'either':
            pass
        elif overflow:
            rec.deviation('C04', 'overflow-although-fits', {'expected': want, 'error': str(ex)})
        # the accepted case is judged by the shared post-condition (check_version_choice)


def run_cases(cases, rec, tier='quick', seed='0'):
    for c in cases:
        if 'b' in c.get('kw', {}):
            c['b'] = c['kw'].pop('b')
    common.run_encode_cases(cases, rec, {'C04', 'C01'}, after=after)
