"""C11 - module iteration and per-type colouring classify every module correctly."""
import io
import random

from refmodel import colors, qr, raster
from vmon import core, gen, monitors, oracle, outoracle
from vmon.props import common
from vmon.props.c09 import make_symbol

PROPERTY = 'C11'
RULE = ('QRCode.matrix_iter (plain and verbose) over all 44 symbol sizes x border {0, 1, default, 4} x scale {1, 2} - every '
        'module of every size is compared with the independent function-pattern map (type codes as documented in '
        'segno.consts, dark = light << 8) and with the module values; invalid borders / scales must raise ValueError; '
        'colourful PNG, SVG and PPM outputs with random subsets of the 15 per-type colour keywords (incl. configurations '
        'with only two distinct colours assigned against the dark/light split) are parsed by the independent readers and '
        'every pixel / path is compared with the colour configured for the type of its module; distinct = (size, border, '
        'scale) iterator cases + (kind, size, keyword subset) colourful cases')
ASSUMPTIONS = ['refmodel/qr.py function_map, refmodel/raster.py, refmodel/vector.py, refmodel/colors.py',
               'type codes are the documented constants of segno.consts (6, 8, 10, 12, 14, 16, 512, 4, 18)']
REQUIRED = ['cases_under_python_O', 'evaluations', 'verbose_modules_checked', 'plain_rows_checked', 'iter_refusals', 'iter_refusals_direct', 'direct_utils_routes_checked', 'colourful:png', 'colourful:svg',
            'colourful:ppm', 'colourful_two_colours_nonuniform', 'all_44_sizes_iterated']
EXHAUSTIVE = {'quick': 'every module of all 44 symbol sizes through matrix_iter(verbose=True)',
              'thorough': 'every module of all 44 symbol sizes through matrix_iter(verbose=True)'}
TIMEOUT = {'quick': 3600, 'thorough': 21600}
OPT_SLICE = {'quick': 120, 'thorough': 1500}     # cases re-run by one more worker under python -O (core.run_sharded)

POOL = ['red', 'blue', 'gold', 'navy', 'teal', 'orchid', '#abc', '#123456', '#fe12dc', (1, 2, 3), (200, 100, 50), (9, 8, 7),
        'green', 'purple', 'orange', 'crimson', 'khaki', '#0f0', '#00f', 'black', 'white', 'silver', 'maroon', 'tan',
        'aliceblue', '#faebd7', (240, 248, 255), 'aquamarine']
POOL_A = ['#12345680', (10, 20, 30, 128), '#abcd', '#00000010', '#ff000000', (9, 9, 9, 0), (1, 2, 3, 0.0), (4, 5, 6, 0.5)]


def gen_cases(tier, seed):
    rng = random.Random(seed * 198491317 + 11)
    cases = []
    for v in oracle.ALL_VERSIONS:
        for border in ([0, None] if tier == 'quick' else [0, 1, None, 4]):
            for scale in ([1] if (tier == 'quick' and not isinstance(v, str) and v > 10) else
                          ([1, 2, 5] if (isinstance(v, str) or v <= 3 or tier == 'thorough') else [1, 2])):
                cases.append({'kind': 'iter', 'version': v, 'seed': rng.randrange(1 << 30), 'border': border, 'scale': scale})
    for bad in ({'border': -1}, {'border': 1.5}, {'border': -0.5}, {'scale': 0}, {'scale': -1}, {'scale': 0.5}, {'scale': -2.5},
                # non-integral / negative borders that are numbers but not floats
                {'border': {'$frac': [5, 2]}}, {'border': {'$dec': '2.5'}}, {'border': {'$frac': [-1, 2]}}, {'border': {'$dec': '-1'}},
                {'border': {'$frac': [1, 3]}}, {'border': {'$dec': '0.999'}}, {'scale': {'$frac': [-1, 2]}}, {'scale': {'$dec': '0'}}):
        for verbose in (False, True):
            cases.append({'kind': 'iter-bad', 'version': rng.choice([1, 'M2', 7]), 'seed': 1, 'kw': dict(bad), 'verbose': verbose})
    n = 600 if tier == 'quick' else 15000
    keys = sorted(outoracle.KEYWORD_TYPES)
    for i in range(n):
        kind = ['png', 'svg', 'ppm'][i % 3]
        v = rng.choice(oracle.ALL_VERSIONS if (tier == 'thorough' or rng.random() < 0.2) else oracle.MICRO + [1, 2, 3, 5, 7, 8])
        kw = {}
        style = rng.random()
        pool = list(POOL)
        rng.shuffle(pool)
        if style < 0.25:
            # only two distinct colours, but assigned against the dark/light split
            a, b = pool[0], pool[1]
            kw['dark'], kw['light'] = a, b
            for k in rng.sample(keys, rng.randint(1, 3)):
                t = outoracle.KEYWORD_TYPES[k]
                kw[k] = b if (t >> 8) else a
            tag = 'two-nonuniform'
        elif style < 0.35:
            a, b = pool[0], pool[1]
            kw['dark'], kw['light'] = a, b
            for k in rng.sample(keys, rng.randint(1, 4)):
                t = outoracle.KEYWORD_TYPES[k]
                kw[k] = a if (t >> 8) else b
            tag = 'two-uniform'
        else:
            if rng.random() < 0.7:
                kw['dark'] = pool.pop()
            if rng.random() < 0.7:
                kw['light'] = pool.pop()
            for k in rng.sample(keys, rng.randint(1, 15 if rng.random() < 0.2 else 5)):
                r = rng.random()
                if r < 0.12 and kind != 'ppm':
                    kw[k] = None
                elif r < 0.2 and kind != 'ppm':
                    kw[k] = rng.choice(POOL_A)
                else:
                    kw[k] = pool.pop() if pool else rng.choice(POOL)
            tag = 'multi'
        if style >= 0.35 and rng.random() < 0.12:
            # one colour, written in two notations for two module types (name / short hex / long hex / tuple / other case)
            names = rng.choice([['black', '#000', '#000000', (0, 0, 0), 'Black'], ['red', '#f00', '#FF0000', (255, 0, 0)],
                                ['navy', '#000080', (0, 0, 128), 'NAVY'], ['white', '#fff', '#FFFFFF', (255, 255, 255)]])
            k1, k2 = rng.sample(keys + ['dark', 'light'], 2)
            kw[k1], kw[k2] = rng.sample(names, 2)
            tag = 'notation-twins'
        elif style >= 0.35 and rng.random() < 0.08:
            # a frame: the quiet zone in the dark colour (two colours in all), with and without a border
            kw = {'dark': 'navy', 'light': 'white', 'quiet_zone': 'navy'} if rng.random() < 0.5 else {'dark': '#000', 'light': '#fff', 'quiet_zone': 'black', 'separator': '#000'}
            kw['border'] = rng.choice([0, 0, 1, 3])
            tag = 'frame'
        if kind == 'png' and style >= 0.35 and rng.random() < 0.12 and tag not in ('notation-twins', 'frame'):
            # two module types with the same RGB whose alpha values compare equal in Python but mean different things:
            # integer 1 (of 255) and float 1.0 (opaque)
            rgb = rng.choice([(0, 0, 0), (255, 255, 255), (200, 10, 30), (1, 2, 3)])
            k1, k2 = rng.sample([k for k in keys if k not in ('quiet_zone',)], 2)
            kw[k1], kw[k2] = rgb + (1,), rgb + (1.0,)
            tag = 'alpha-twins'
        if style >= 0.35 and rng.random() < 0.3 and tag != 'alpha-twins':
            # an exact number of distinct colours: the palette / bit depth boundaries of the PNG writer (2|3, 4|5, 15)
            want_n = rng.choice([3, 4, 5, 8, 15 if (not isinstance(v, str) and v >= 7) else 9])
            cols = list(POOL[:])
            rng.shuffle(cols)
            cols = cols[:want_n]
            kw = {k2: v2 for k2, v2 in kw.items() if k2 in ('scale', 'border')}
            ks = ['dark', 'light'] + rng.sample(keys, min(len(keys), max(0, want_n - 2)))
            for k2, c2 in zip(ks, cols):
                kw[k2] = c2
            tag = 'exact-%d' % want_n
        if rng.random() < 0.6:
            kw['scale'] = rng.choice([1, 2, 3, 4, 8] if kind != 'svg' else [1, 2, 2.5, 0.5, 3.3])
        if rng.random() < 0.6 and tag != 'frame':
            kw['border'] = rng.choice([0, 1, 2, 4, None])
        if kind == 'svg' and rng.random() < 0.2:
            kw['draw_transparent'] = True
        if kind == 'svg' and rng.random() < 0.45:
            # document options change what is written around / inside the paths (attribute lengths, order) - never
            # which module gets which colour
            for opt, vals in (('lineclass', [None, 'ln', 'a b']), ('svgclass', [None, 'c']), ('nl', [False]), ('xmldecl', [False]),
                              ('svgns', [False]), ('omitsize', [True]), ('svgid', ['i1']), ('title', ['T']), ('desc', ['D'])):
                if rng.random() < 0.35:
                    kw[opt] = rng.choice(vals)
        if rng.random() < 0.15 and tag == 'multi' and (not isinstance(v, str)):
            # a colour used by exactly one module (the dark module): the shortest possible path
            kw['dark_module'] = rng.choice(['red', '#f0f', 'gold', '#123'])
        cases.append({'kind': 'colourful', 'out': kind, 'version': v, 'seed': rng.randrange(1 << 30), 'kw': kw, 'tag': tag})
    # always: a colour that belongs to a single module (the dark module) next to large areas of few colours, with and
    # without class attributes / with a long colour value - the order in which an SVG writer emits its paths must not matter
    for v in (1, 2, 7, 'M3'):
        for base in ({'dark': '#000', 'light': '#fff'}, {'dark': 'navy', 'light': '#ffff0080'}, {'dark': '#123', 'light': None},
                     {'dark': 'black', 'light': 'white', 'finder_dark': 'black', 'quiet_zone': 'white'}):
            for opts in ({'lineclass': None}, {}, {'lineclass': '', 'svgclass': None}, {'lineclass': None, 'draw_transparent': True}):
                for kind in ('svg', 'png', 'ppm'):
                    if kind != 'svg' and opts:
                        continue
                    if kind == 'ppm' and (base['light'] is None or str(base['light']).endswith('80')):
                        continue
                    kw = dict(base, **opts)
                    if not isinstance(v, str):
                        kw['dark_module'] = rng.choice(['red', 'blue', '#0f0'])
                    else:
                        kw['separator'] = 'red'
                    kw['border'] = rng.choice([0, 1, None])
                    cases.append({'kind': 'colourful', 'out': kind, 'version': v, 'seed': rng.randrange(1 << 30), 'kw': kw, 'tag': 'single-module-colour'})
    rng.shuffle(cases)
    return cases


def check_iter(case, q, rec):
    n = len(q.matrix)
    border, scale = case['border'], case['scale']
    b = outoracle.default_border(n) if border is None else border
    grid = outoracle.scaled(outoracle.module_grid(q.matrix, b), scale)
    rows = [list(r) for r in q.matrix_iter(scale=scale, border=border)]
    rec.count('plain_rows_checked', len(rows))
    if rows != grid:
        rec.deviation('C11', 'matrix-iter', {'size': n, 'border': border, 'scale': scale, 'rows': len(rows),
                                             'expected_rows': len(grid)})
    types = outoracle.scaled(outoracle.type_grid(q.matrix, b), scale)
    vrows = [list(r) for r in q.matrix_iter(scale=scale, border=border, verbose=True)]
    # the module-level functions the writers use, called directly: same values on this route
    from segno import utils
    try:
        direct = [list(r) for r in utils.matrix_iter(q.matrix, (n, n), scale=scale, border=border)]
        vdirect = [list(r) for r in utils.matrix_iter_verbose(q.matrix, (n, n), scale=scale, border=border)]
        rec.count('direct_utils_routes_checked')
        if direct != grid:
            rec.deviation('C11', 'matrix-iter', {'route': 'utils.matrix_iter', 'size': n, 'border': border, 'scale': scale,
                                                 'rows': len(direct), 'expected_rows': len(grid)})
        if vdirect != vrows:
            rec.deviation('C11', 'verbose-routes-differ', {'size': n, 'border': border, 'scale': scale})
    except Exception as ex:  # noqa: BLE001
        rec.deviation('C11', 'matrix-iter-raises', {'route': 'utils', 'size': n, 'border': border, 'scale': scale,
                                                    'error': repr(ex)[:200]})
    if len(vrows) != len(types) or any(len(r) != len(types) for r in vrows):
        rec.deviation('C11', 'verbose-size', {'size': n, 'border': border, 'scale': scale, 'rows': len(vrows)})
        return
    bad = []
    for y in range(len(types)):
        tr, vr, gr = types[y], vrows[y], grid[y]
        for x in range(len(tr)):
            if vr[x] != tr[x] or (bool(vr[x] >> 8) != bool(gr[x])):
                bad.append((y // scale - b, x // scale - b, vr[x], tr[x]))
    rec.count('verbose_modules_checked', len(types) * len(types))
    rec.extra.setdefault('sizes', []).append(str(n))
    if bad:
        cells = sorted({(r, c, got, want) for r, c, got, want in bad})
        rec.deviation('C11', 'verbose-type', {'size': n, 'border': border, 'scale': scale, 'n_modules': len({(r, c) for r, c, _, _ in cells}),
                                              'cells': cells[:12]})
    else:
        rec.seen('iter|%s|%s|%s' % (n, border, scale))


def check_colourful(case, q, rec):
    kind, kw = case['out'], case['kw']
    n = len(q.matrix)
    border = kw.get('border')
    b = outoracle.default_border(n) if border is None else border
    out = io.BytesIO()
    common.earlier_saves(q, case, rec)
    try:
        q.save(out, kind=kind, **kw)
    except Exception as ex:  # noqa: BLE001
        rec.deviation('C11', 'colourful-save-raised', {'type': type(ex).__name__, 'error': str(ex)[:200]})
        return
    data = out.getvalue()
    rec.count('colourful:%s' % kind)
    if case.get('tag') == 'two-nonuniform':
        rec.count('colourful_two_colours_nonuniform')
    what = {'kind': kind, 'size': n, 'scale': kw.get('scale', 1), 'border': border}
    defaults = ('#000', '#fff') if kind in ('png', 'ppm') else ('#000', None)
    cmap = {t: colors.parse(c) for t, c in outoracle.colour_map(kw, *defaults).items()}
    types = outoracle.type_grid(q.matrix, b)
    devs = []
    if kind in ('png', 'ppm'):
        s = int(kw.get('scale', 1))
        try:
            img = raster.read_png(data) if kind == 'png' else raster.read_pnm(data)
        except raster.Bad as ex:
            rec.deviation('C11', 'malformed', dict(what, error=str(ex)))
            return
        side = (n + 2 * b) * s
        if (img['w'], img['h']) != (side, side):
            rec.deviation('C11', 'declared-size', dict(what, declared=(img['w'], img['h']), expected=side))
            return
        raw = []
        outoracle.compare_pixels(img['px'], outoracle.scaled(types, s), None, None, raw, what, colour_of=lambda t: cmap[t])
        # attribute wrong pixels to modules / types
        for k, detail in raw:
            if k == 'pixel-colour':
                mods = set()
                tg = outoracle.scaled(types, s)
                for y in range(side):
                    for x in range(side):
                        if not outoracle.same_color(img['px'][y][x], cmap[tg[y][x]]):
                            mods.add((y // s - b, x // s - b, tg[y][x], tuple(img['px'][y][x])))
                detail = dict(detail, modules=sorted(mods)[:12], n_modules=len({(r, c) for r, c, _, _ in mods}),
                              cmap_format={t: cmap[t] for t in (14, 14 << 8)})
            devs.append((k, detail))
    else:
        side = n + 2 * b
        page = side * kw.get('scale', 1)
        try:
            outoracle.check_svg(data, q.matrix, kw, devs, what, None, side, page,
                                expected=lambda r, c: cmap[types[r][c]])
        except Exception as ex:  # noqa: BLE001
            from refmodel import vector
            if isinstance(ex, vector.Bad):
                devs.append(('malformed', dict(what, error=str(ex))))
            else:
                raise
        devs = [(k, dict(d, border_used=b, cmap_format={t: cmap[t] for t in (14, 14 << 8)},
                         cmap_data={t: cmap[t] for t in (4, 4 << 8)})) for k, d in devs]
    for k, detail in devs:
        rec.deviation('C11', 'colourful-' + k, detail)
    rec.seen('%s|%s|%s|%s' % (kind, n, case.get('tag'), ','.join(sorted(k for k in kw if k in outoracle.KEYWORD_TYPES))))
    rec.sample({'kind': kind, 'version': case['version'], 'kw': core.short(kw, 200)})


def colour_spec(kw, t, defaults):
    return outoracle.colour_map(kw, *defaults)[t]


def real_number(v):
    """JSON-able stand-ins for exact non-float numbers."""
    if isinstance(v, dict) and '$frac' in v:
        from fractions import Fraction
        return Fraction(*v['$frac'])
    if isinstance(v, dict) and '$dec' in v:
        from decimal import Decimal
        return Decimal(v['$dec'])
    return v


def run_cases(cases, rec, tier='quick', seed='0'):
    import segno
    monitors.start_reach()
    for case in cases:
        rec.case = case
        rec.count('evaluations')
        q = make_symbol(case)
        if case['kind'] == 'iter':
            check_iter(case, q, rec)
        elif case['kind'] == 'iter-bad':
            case = dict(case, kw={k: real_number(v) for k, v in case['kw'].items()})
            try:
                list(q.matrix_iter(verbose=case['verbose'], **case['kw']))
                rec.deviation('C11', 'invalid-iter-argument-accepted', {'kw': case['kw'], 'verbose': case['verbose']})
            except ValueError:
                rec.count('iter_refusals')
            except Exception as ex:  # noqa: BLE001
                rec.deviation('C11', 'invalid-iter-argument-exception', {'kw': case['kw'], 'type': type(ex).__name__})
            from segno import utils
            n = len(q.matrix)
            fn = utils.matrix_iter_verbose if case['verbose'] else utils.matrix_iter
            try:
                list(fn(q.matrix, (n, n), **case['kw']))
                rec.deviation('C11', 'invalid-iter-argument-accepted', {'route': 'utils', 'kw': case['kw'], 'verbose': case['verbose']})
            except ValueError:
                rec.count('iter_refusals_direct')
            except Exception as ex:  # noqa: BLE001
                rec.deviation('C11', 'invalid-iter-argument-exception', {'route': 'utils', 'kw': case['kw'], 'type': type(ex).__name__})
        else:
            check_colourful(case, q, rec)
    monitors.stop_reach(rec)
    rec.case = None


def post_merge(m, tier):
    sizes = set(m['extra'].pop('sizes', []))
    if len(sizes) == 44:
        m['counters']['all_44_sizes_iterated'] = 1
    return {'distinct_sizes_iterated': len(sizes)}
