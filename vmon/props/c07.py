"""C07 - most compact applicable mode is chosen; a requested mode is honoured or refused."""
import random

from refmodel import qr
from vmon import gen, monitors, oracle
from vmon.props import common

PROPERTY = 'C07'
RULE = ('all 256 one-byte contents; two-byte contents (quick: every lead byte x boundary trail bytes 00,3F,40,7E,7F,80,FC,'
        'FD,FF + random; thorough: all 65,536) with mode None and with each requested mode; class strings x requested mode x '
        'version class; the mode indicator decoded from the symbol must equal the specification-level expectation '
        '(numeric < alphanumeric < kanji (strict double-byte Shift JIS incl. trail byte) < byte, hanzi never automatic); a '
        'requested mode must be used if representable and available in the version, else ValueError; QRCode.mode must '
        'equal the decoded indicator; distinct = (content class, requested mode, outcome, decoded mode) combinations and '
        'distinct two-byte values')
ASSUMPTIONS = common.ASSUME_QR + ['empty content with a requested mode is not judged (vacuous representability)']
REQUIRED = ['sequence_symbol_modes_checked', 'cases_under_python_O', 'evaluations', 'encode_observed', 'symbols_decoded', 'auto_mode_checked', 'requested_mode_honoured',
            'requested_mode_refused', 'two_byte_inputs']
EXHAUSTIVE = {'thorough': 'all 65,536 two-byte contents with mode None; all 256 one-byte contents'}
TIMEOUT = {'quick': 3600, 'thorough': 21600}
OPT_SLICE = {'quick': 120, 'thorough': 1500}     # cases re-run by one more worker under python -O (core.run_sharded)
TRAILS = [0x00, 0x3f, 0x40, 0x7e, 0x7f, 0x80, 0xfc, 0xfd, 0xff]


def gen_cases(tier, seed):
    rng = random.Random(seed * 86028121 + 7)
    cases = []
    for b in range(256):
        cases.append(common.mk(bytes([b]), tag='one-byte'))
        cases.append(common.mk(bytes([b]), tag='one-byte', mode=rng.choice(oracle.MODES)))
    if tier == 'thorough':
        for hi in range(256):
            for lo in range(256):
                cases.append(common.mk(bytes((hi, lo)), tag='two-byte'))
        pairs = [(rng.randrange(256), rng.randrange(256)) for _ in range(12000)] + \
                [(hi, lo) for hi in range(256) for lo in TRAILS]
    else:
        for hi in range(256):
            for lo in TRAILS:
                cases.append(common.mk(bytes((hi, lo)), tag='two-byte'))
        for _ in range(1500):
            cases.append(common.mk(bytes((rng.randrange(256), rng.randrange(256))), tag='two-byte'))
        pairs = [(rng.choice([rng.randint(0x81, 0x9f), rng.randint(0xe0, 0xeb), rng.randint(0xa1, 0xfa), rng.randrange(256)]),
                  rng.choice(TRAILS + [rng.randrange(256), rng.randint(0xa1, 0xfe)])) for _ in range(2500)]
    for hi, lo in pairs:
        cases.append(common.mk(bytes((hi, lo)), tag='two-byte-requested', mode=rng.choice(['kanji', 'hanzi', 'byte', 'alphanumeric', 'numeric'])))
    # longer double-byte strings with one bad pair somewhere
    for _ in range(300 if tier == 'quick' else 4000):
        n = rng.randint(2, 6)
        data = bytearray(gen.sjis_pairs(rng, n))
        if rng.random() < 0.6:
            i = rng.randrange(n)
            data[2 * i + 1] = rng.choice([0x7f, 0x3f, 0xfd, 0x00, 0xff, 0x20])
        kw = {}
        if rng.random() < 0.5:
            kw['mode'] = 'kanji'
        cases.append(common.mk(bytes(data), tag='sjis-string', **kw))
    # class strings x requested mode x version class
    classes = ['digits', 'alnum', 'ascii', 'latin1', 'kana', 'sjis_bytes', 'hanzi', 'bytes', 'int', 'utf8', 'upper', 'latin1_jis', 'cp932_only', 'nfd']
    for _ in range(1500 if tier == 'quick' else 20000):
        cls = rng.choice(classes)
        content = gen.content_of(rng, cls, rng.choice([rng.randint(1, 14), rng.randint(1, 14), rng.randint(15, 120)]))
        kw = {}
        r = rng.random()
        if r < 0.75:
            kw['mode'] = rng.choice(oracle.MODES + ['Kanji', 'ALPHANUMERIC'])
        if rng.random() < 0.15 and not isinstance(content, (bytes, int)):
            kw['encoding'] = rng.choice(['utf-8', 'shift_jis', 'gb2312', 'utf-16-be', 'big5', 'latin1'])
        r = rng.random()
        if r < 0.35:
            kw['version'] = rng.choice(oracle.MICRO + [1, 5, 10, 27])
        elif r < 0.5:
            kw['micro'] = rng.choice([True, False])
        cases.append(common.mk(content, tag=cls, **kw))
    if tier == 'thorough':
        for _ in range(150000):
            n = rng.choice([3, 4, 4, 6])
            data = bytes(rng.choice([rng.randint(0x81, 0x9f), rng.randint(0xe0, 0xeb), rng.randint(0x30, 0x39), rng.randint(0x40, 0xfc),
                                     rng.randrange(256)]) for _ in range(n))
            kw = {}
            if rng.random() < 0.3:
                kw['mode'] = rng.choice(['kanji', 'byte', 'alphanumeric', 'numeric', 'hanzi'])
            cases.append(common.mk(data, tag='n-byte', **kw))
    # a requested double-byte mode fixes the byte representation (hanzi: GB2312, kanji: Shift JIS bytes of the text) whatever
    # `encoding` says about byte mode
    for text in ('汉字', '中文北京', '汉', '上海广州深圳'):
        for enc in (None, 'utf-8', 'gb2312', 'gbk', 'utf-16-be', 'big5', 'latin1', 'shift_jis'):
            kw = {'mode': rng.choice(['hanzi', 'HANZI', 'Hanzi'])}
            if enc:
                kw['encoding'] = enc
            cases.append(common.mk(text, tag='hanzi-encoding', **kw))
    for text in ('点茗', '漢字', 'アイウ'):
        for enc in (None, 'shift_jis', 'utf-8', 'cp932'):
            kw = {'mode': 'kanji'}
            if enc:
                kw['encoding'] = enc
            cases.append(common.mk(text, tag='kanji-encoding', **kw))
    # strings that are almost alphanumeric / numeric
    for ch in [',', ';', 'a', '_', '#', '\n', '\x00', '!', '"', "'", '(', '=', '@', '[', '~', 'é', '０', '٣', '²']:
        for base in ('A%sB', '1%s5', '%s', 'HELLO%sWORLD', '12%s'):
            cases.append(common.mk(base % ch, tag='almost'))
            cases.append(common.mk(base % ch, tag='almost', mode=rng.choice(['alphanumeric', 'numeric'])))
    # hanzi requested for text outside GB2312 - some of it inside its supersets GBK / GB18030, in the rows the range check lets pass
    for text in ('ⅰⅱ', 'ⅰ汉', '汉ⅹ', '·—', 'ɑɡ', 'ńň', '︵︶', '汉字ⅲ', '䶮', '𠀀', '€', '汉€', 'abc', '１２３', '汉字'):
        for fn in ('make', 'make_qr'):
            cases.append(common.mk(text, tag='hanzi-superset', fn=fn, mode='hanzi'))
            cases.append(common.mk(text, tag='hanzi-superset', fn=fn, mode='hanzi', encoding='gbk') if fn == 'make' else
                         common.mk(text, tag='hanzi-superset', fn=fn, mode='HANZI', version=5))
    # sequences of double-byte characters at the edges of the two Shift JIS ranges (8140-9FFC, E040-EBBF): whether the
    # *whole* content is kanji is decided character by character - a later character outside the ranges makes it byte
    leads = [0xEB, 0xEA, 0xE0, 0x9F, 0x81, 0xEC, 0x80]
    trails = [0x40, 0x7E, 0x7F, 0x80, 0xBF, 0xC0, 0xFC, 0xFD, 0x3F]
    pool = [bytes((a, b)) for a in leads for b in trails]
    for x in pool:
        for y in pool:
            if rng.random() < (0.35 if tier == 'quick' else 1.0) or (x[0] == 0xEB and y[0] == 0xEB):
                cases.append(common.mk(x + y, tag='two-byte-pairs'))
    for _ in range(300 if tier == 'quick' else 6000):
        k = rng.randint(3, 6)
        content = b''.join(rng.choice(pool) if rng.random() < 0.5 else bytes((0xEB, rng.choice([0x40, 0x50, 0xBF, 0xC0, 0xD0, 0xFC])))
                           for _ in range(k))
        cases.append(common.mk(content, tag='two-byte-pairs', **({'mode': 'kanji'} if rng.random() < 0.2 else {})))
    # the mode of the symbols of a sequence: content of one class, every chunk of it is of that class too, so every
    # symbol carries the mode indicator of the first applicable mode - also when the content is longer than one symbol
    # could ever hold (kanji: 1817 characters)
    for cls, n_chars in (('digits', 300), ('digits', 8000), ('alnum', 500), ('alnum', 5000), ('kana', 120), ('kana', 1817), ('kana', 1818),
                         ('kana', 2500), ('ascii', 400), ('ascii', 3000)):
        for sel in ({'symbol_count': 16}, {'symbol_count': 9}, {'version': 40}):
            if tier == 'quick' and n_chars > 3000 and 'version' in sel:
                continue
            cases.append({'fn': 'make_sequence', 'content': gen.content_of(rng, cls, n_chars * (2 if cls == 'kana' else 1)), 'kw': dict(sel), 'tag': 'sequence-mode',
                          'expect_mode': {'digits': 'numeric', 'alnum': 'alphanumeric', 'kana': 'kanji', 'ascii': 'byte'}[cls]})
    rng.shuffle(cases)
    return cases


def after(case, q, ex, rec):
    content, kw = case['content'], case['kw']
    if case.get('tag') == 'sequence-mode':
        if ex is not None:
            rec.count('sequence_mode_refused')
            return
        want = oracle.spec_parts(content, None, None)[0]['mode']      # the class of the whole content (independent model)
        for i, sym in enumerate(q):
            s, err = oracle.read(sym.matrix)
            if s is None or not s.segments:
                continue
            rec.count('sequence_symbol_modes_checked')
            got = s.segments[0]['mode']
            if got != want or sym.mode != got:
                rec.deviation('C07', 'sequence-symbol-mode', {'symbol': i, 'of': len(q), 'indicator': got, 'reported': sym.mode,
                                                              'expected': want, 'characters': len(content)})
                break
        rec.seen('seqmode|%s|%d' % (want, len(q)))
        return
    try:
        a = oracle.normalize_args(dict(kw, content=content))
        parts = oracle.spec_parts(content, a.get('mode'), a.get('encoding'))
    except oracle.Refuse:
        if ex is None:
            rec.deviation('C07', 'accepted-illegal-mode', {'mode': kw.get('mode')})
        return
    except (UnicodeError, LookupError):
        # the text -> bytes policy refuses. With mode='hanzi' the policy *is* the mode question: hanzi means GB2312, and text
        # GB2312 cannot represent is not representable in the requested mode -> refused with ValueError
        if str(kw.get('mode')).lower() == 'hanzi' and isinstance(content, str):
            if ex is None:
                rec.deviation('C07', 'accepted-unrepresentable', {'mode': 'hanzi', 'why': 'not encodable in GB2312', 'content': content[:20]})
            elif isinstance(ex, ValueError):
                rec.count('requested_mode_refused')
        return
    p = parts[0]
    if case.get('tag', '').startswith('two-byte'):
        rec.count('two_byte_inputs')
        rec.seen('2b|' + p['data'].hex() + '|' + str(p['requested']))
    last = monitors.State.last
    s = last[3] if (last and ex is None) else None
    version = a['version_name']
    micro = a.get('micro')
    req = p['requested']
    key = '%s|%s|%s|%s' % (case.get('tag'), req, type(ex).__name__ if ex else 'ok', s.segments[0]['mode'] if s is not None and s.segments else None)
    rec.seen(key)
    if req is None:
        # automatic mode; refusals can only stem from version / micro constraints or overflow
        if ex is None:
            rec.count('auto_mode_checked')   # judged by the post-condition (check_modes)
        elif isinstance(ex, ValueError):
            if version is None and micro is None and not kw.get('error') and len(p['data']) < 1000:
                rec.deviation('C07', 'auto-mode-content-refused', {'error': str(ex), 'expected_mode': p['mode'],
                                                                   'data': p['data'][:20]})
        return
    if not len(p['data']):
        return
    rep = p['representable']
    if not rep:
        if ex is None:
            pass  # reported by the post-condition as accepted-unrepresentable
        elif isinstance(ex, ValueError):
            rec.count('requested_mode_refused')
        return
    # representable: must be honoured unless the version cannot carry it / data does not fit
    if ex is None:
        rec.count('requested_mode_honoured')
        return
    if not isinstance(ex, ValueError):
        return  # exception classes are C14's business
    # admissible reasons for a refusal: mode not available in the requested/required version, or overflow
    from segno.encoder import DataOverflowError
    if isinstance(ex, DataOverflowError):
        return
    if version is not None and not oracle.mode_available(version, req):
        rec.count('requested_mode_refused')
        return
    if (micro is True or (isinstance(version, str))) and not any(oracle.mode_available(v, req) for v in oracle.MICRO):
        rec.count('requested_mode_refused')
        return
    if micro is True and kw.get('error') and str(kw['error']).upper() == 'H':
        return
    if micro is True and version is not None and not isinstance(version, str):
        return
    if micro is False and isinstance(version, str):
        return
    if isinstance(version, str) and kw.get('error') and str(kw['error']).upper() not in (oracle.levels_of(version) or []):
        return
    rec.deviation('C07', 'representable-mode-refused', {'mode': req, 'error': str(ex), 'data': p['data'][:20]})


def run_cases(cases, rec, tier='quick', seed='0'):
    common.run_encode_cases(cases, rec, {'C07'}, after=after)
