"""C10 - vector outputs (SVG, EPS, PDF, LaTeX) paint exactly the dark modules."""
import io
import random

from vmon import core, gen, monitors, oracle, outoracle
from vmon.props import common
from vmon.props.c09 import make_symbol, NAMED, HEX, TUP, HEXA, TUPA

PROPERTY = 'C10'
RULE = ('documents of kinds svg, eps, pdf, tex over symbol sizes x scale {0.5, 0.7, 1, 2, 2.5, 3.3, 10, ...} x border x colours x '
        'SVG options (unit, omitsize, svgversion, draw_transparent, xmldecl, svgns, nl, title/desc with markup characters, '
        'svgid, svgclass, lineclass, encoding); each document is parsed by an independent mini-interpreter (XML / PostScript '
        'tokens / PDF objects, xref, inflate, content operators / PGF commands), its own transforms are applied, the stroked '
        'segments are rasterised on the module grid and compared with the dark modules (each exactly once, none outside the '
        'page), page box, colours, opacity, background coverage, PDF /Length and xref offsets are checked; distinct = '
        '(kind, size, scale, border, option signature)')
ASSUMPTIONS = ['refmodel/vector.py (independent interpreters), refmodel/colors.py, xml.etree and zlib of CPython',
               'TikZ has no page box: geometry compared modulo one translation (DESIGN 4.1)',
               'the sixth PDF xref entry and the endofbj typo of the Info object are outside the statement (DESIGN 4.1)',
               'relative tolerance 1e-9 on page sizes, 0.005 on opacity']
REQUIRED = ['cases_under_python_O', 'evaluations', 'documents_checked', 'kind:svg', 'kind:eps', 'kind:pdf', 'kind:tex', 'fractional_scale', 'scale_below_1',
            'with_background', 'svg_group_transform']
TIMEOUT = {'quick': 3600, 'thorough': 21600}
OPT_SLICE = {'quick': 120, 'thorough': 1500}     # cases re-run by one more worker under python -O (core.run_sharded)
SCALES = [0.5, 0.7, 1, 1, 2, 2.5, 3.3, 10, 4, 0.25, 1.5, 7.75, 0.1 + 0.2, 1 / 3, 0.001, 1234.5678, 2.0000000000000004, 1e-05, 100]


def col(rng, alpha=False, none=False):
    pools = [NAMED, HEX, TUP] + ([HEXA, TUPA, [(5, 6, 7, 0.5), (5, 6, 7, 0.25)]] if alpha else [])
    if none and rng.random() < 0.15:
        return None
    return rng.choice(rng.choice(pools))


def gen_cases(tier, seed):
    rng = random.Random(seed * 179424673 + 10)
    n = 1200 if tier == 'quick' else 25000
    cases = []
    kinds = ['svg', 'svg', 'svg', 'eps', 'pdf', 'pdf', 'tex']
    for i in range(n):
        kind = kinds[i % len(kinds)]
        v = rng.choice(oracle.ALL_VERSIONS if (tier == 'thorough' or rng.random() < 0.25) else oracle.MICRO + [1, 2, 3, 4, 5, 7])
        kw = {}
        if rng.random() < 0.8:
            kw['scale'] = rng.choice(SCALES)
        if rng.random() < 0.7:
            kw['border'] = rng.choice([None, 0, 1, 2, 3, 5])
        if kind == 'svg':
            if rng.random() < 0.7:
                kw['dark'] = col(rng, alpha=True, none=True)
            if rng.random() < 0.6:
                kw['light'] = col(rng, alpha=True, none=True)
            if kw.get('light') is not None and kw.get('dark', '#000') is not None:
                from refmodel import colors
                if colors.parse(kw.get('dark', '#000'))[:3] == colors.parse(kw['light'])[:3]:
                    kw['light'] = None   # dark == light is a degenerate symbol (nothing to tell apart)
            if rng.random() < 0.25:
                kw['unit'] = rng.choice(['mm', 'cm', 'px', 'pt', 'in', '%', 'em'])
            elif rng.random() < 0.25:
                kw['omitsize'] = True
            if rng.random() < 0.3:
                kw['svgversion'] = rng.choice([1.1, 2.0, 1, 2, 1.0, 2.1])
            if rng.random() < 0.25:
                kw['draw_transparent'] = rng.choice([True, False])
            for opt in ('xmldecl', 'svgns', 'nl'):
                if rng.random() < 0.25:
                    kw[opt] = rng.choice([True, False])
            if rng.random() < 0.3:
                kw['title'] = rng.choice(['QR', 'a <b> & "c" \'d\'', 'Tïtle ☃', '', ']]>', '&amp;'])
            if rng.random() < 0.3:
                kw['desc'] = rng.choice(['desc', '<script>alert(1)</script>', 'x & y', ''])
            if rng.random() < 0.2:
                kw['svgid'] = rng.choice(['qr1', 'a"b', 'x y'])
            if rng.random() < 0.2:
                kw['svgclass'] = rng.choice([None, 'cls', 'a b', 'q"r'])
            if rng.random() < 0.2:
                kw['lineclass'] = rng.choice([None, 'line', 'l<1>'])
            if rng.random() < 0.15:
                kw['encoding'] = rng.choice(['utf-8', 'iso-8859-1', 'utf-16', None])
        elif kind in ('eps', 'pdf'):
            # float channels 0..1 next to int channels 0..255 that compare equal to them (1 == 1.0: one is full
            # intensity, the other 1/255)
            FLOATS = [(0.5, 0.25, 1.0), (0.0, 0.0, 0.0), (1.0, 1.0, 1.0), (0.1, 0.2, 0.3), (1.0, 0.0, 0.5), (0.2, 128, 0.0),
                      (1.0, 0.0, 0.0), (1, 0, 0), (0.0, 1.0, 0.0), (0, 1, 0), (1, 1, 1), (0.0, 0.0, 1.0), (0, 0, 1), (1, 0.0, 1.0)]
            if rng.random() < 0.6:
                kw['dark'] = col(rng) if rng.random() < 0.8 else rng.choice(FLOATS)
            if rng.random() < 0.5:
                kw['light'] = col(rng, none=True) if rng.random() < 0.8 else rng.choice(FLOATS)
            if kind == 'pdf' and rng.random() < 0.3:
                kw['compresslevel'] = rng.randint(0, 9)
        else:
            if rng.random() < 0.4:
                kw['dark'] = rng.choice(['black', 'red', 'blue!50', 'mycolor'])
            if rng.random() < 0.4:
                kw['unit'] = rng.choice(['pt', 'mm', 'cm', 'em'])
            if rng.random() < 0.2:
                kw['url'] = 'https://example.org/?a=1'
        cases.append({'kind': kind, 'version': v, 'seed': rng.randrange(1 << 30), 'kw': kw})
    rng.shuffle(cases)
    return cases


def run_cases(cases, rec, tier='quick', seed='0'):
    monitors.start_reach()
    for case in cases:
        rec.case = case
        rec.count('evaluations')
        q = make_symbol(case)
        kind, kw = case['kind'], case['kw']
        out = io.StringIO() if kind in ('eps', 'tex') else io.BytesIO()
        common.earlier_saves(q, case, rec)
        try:
            q.save(out, kind=kind, **kw)
        except ValueError as ex:
            if kind == 'svg' and kw.get('unit') and kw.get('omitsize'):
                continue
            if kind == 'svg' and 'encoding' in kw and isinstance(ex, UnicodeError):
                rec.count('refused_unencodable_title')
                continue
            rec.deviation('C10', 'valid-document-refused', {'error': str(ex)[:200]})
            continue
        except Exception as ex:  # noqa: BLE001
            rec.deviation('C10', 'save-raised', {'type': type(ex).__name__, 'error': str(ex)[:200]})
            continue
        data = out.getvalue()
        devs = outoracle.check_vector(kind, data, q.matrix, kw)
        rec.count('documents_checked')
        rec.count('kind:%s' % kind)
        s = kw.get('scale', 1)
        if s != int(s):
            rec.count('fractional_scale')
        if s < 1:
            rec.count('scale_below_1')
        if kw.get('light') is not None:
            rec.count('with_background')
        if kind == 'svg' and b'<g ' in data:
            rec.count('svg_group_transform')
        for k, detail in devs:
            rec.deviation('C10', k, detail)
        rec.seen('%s|%s|%s|%s|%s' % (kind, len(q.matrix), s, kw.get('border', 'd'),
                                    ','.join(sorted(k for k in kw if k not in ('scale', 'border')))))
        rec.sample({'kind': kind, 'version': case['version'], 'kw': core.short(kw, 150), 'bytes': len(data)})
    monitors.stop_reach(rec)
    rec.case = None
