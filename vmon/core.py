"""Runner core: paths, case (de)serialisation, recorder, sharded execution over
subprocess workers, known-finding classification, evidence and verdict.

Verdicts are three-valued (DESIGN.md section 4):
  exit 0  held on everything observed and every deciding monitor was reached
  exit 1  VIOLATION property=<id> replay=<path>
  exit 2  inconclusive (monitor never reached / worker crashed / watchdog)
"""
import collections
import hashlib
import importlib
import json
import os
import subprocess
import sys
import time

VERIF = os.path.dirname(os.path.dirname(os.path.abspath(__file__)))
REPO = os.environ.get('VERIF_REPO', '/repo')
DEPS = os.path.join(VERIF, '.deps')
WORK = os.path.join(VERIF, 'work')
WHEELS = '/opt/veriftools/wheels'
PROPS = ['C%02d' % i for i in range(1, 17)]


# ----------------------------------------------------------------- bootstrap
def ensure_deps():
    """icontract lives in the git-ignored .deps directory; (re-)install it
    idempotently from the offline wheelhouse. Returns True if importable."""
    if not os.path.isdir(os.path.join(DEPS, 'icontract')):
        try:
            subprocess.run([sys.executable, '-m', 'pip', 'install', '--quiet', '--no-index',
                            '--find-links', WHEELS, '--target', DEPS, 'icontract'],
                           check=False, stdout=subprocess.DEVNULL, stderr=subprocess.DEVNULL, timeout=300)
        except Exception:
            pass
    return os.path.isdir(os.path.join(DEPS, 'icontract'))


def bootstrap():
    """Puts the repository under test first on sys.path (never writes bytecode
    into it) and the contract library behind it."""
    sys.dont_write_bytecode = True
    for p in (DEPS, VERIF, REPO):
        if p in sys.path:
            sys.path.remove(p)
    sys.path.insert(0, DEPS)
    sys.path.insert(0, VERIF)
    sys.path.insert(0, REPO)
    import segno
    real = os.path.realpath(os.path.dirname(os.path.dirname(segno.__file__)))
    if real != os.path.realpath(REPO):
        raise RuntimeError('segno imported from %s, expected %s' % (real, REPO))
    # must be imported before any writer attribute is rebound (cli introspects __code__)
    import segno.cli  # noqa: F401
    return segno


def child_env():
    env = dict(os.environ)
    env['PYTHONHASHSEED'] = '0'
    env['PYTHONDONTWRITEBYTECODE'] = '1'
    env['VERIF_REPO'] = REPO
    env['PYTHONPATH'] = os.pathsep.join([REPO, VERIF, DEPS])
    env.pop('PYTHONSTARTUP', None)
    return env


class _TimedOut:
    """Result of a subprocess that hit the wall-clock watchdog: never a verdict, the caller counts it and moves on."""
    returncode = None
    stdout = b''
    stderr = b'watchdog: subprocess did not finish in time'


def run_sub(cmd, **kw):
    kw.setdefault('timeout', 900)
    try:
        return subprocess.run(cmd, **kw)
    except subprocess.TimeoutExpired:
        REC.count('subprocess_watchdog_fired')
        return _TimedOut()


# ------------------------------------------------------------ (de)serialise
_BIG = 10 ** 4000


def int_to_text(n):
    """Decimal digits of an int of any size (str() refuses more than 4300 digits on Python >= 3.11)."""
    if -_BIG < n < _BIG:
        return str(n)
    sign, n = ('-' if n < 0 else ''), abs(n)
    groups = []
    while n >= _BIG:
        n, low = divmod(n, _BIG)
        groups.append(str(low).zfill(4000))
    groups.append(str(n))
    return sign + ''.join(reversed(groups))


def text_to_int(t):
    sign, t = (-1, t[1:]) if t.startswith('-') else (1, t)
    n = 0
    head = len(t) % 4000
    if head:
        n = int(t[:head])
    for i in range(head, len(t), 4000):
        n = n * _BIG + int(t[i:i + 4000])
    return sign * n


def enc(o):
    if isinstance(o, int) and not isinstance(o, bool) and not -_BIG < o < _BIG:
        return {'$i': int_to_text(o)}
    if isinstance(o, bytes):
        return {'$b': o.hex()}
    if isinstance(o, bytearray):
        return {'$b': bytes(o).hex()}
    if isinstance(o, tuple):
        return {'$t': [enc(x) for x in o]}
    if isinstance(o, list):
        return [enc(x) for x in o]
    if isinstance(o, dict):
        return {str(k): enc(v) for k, v in o.items()}
    if isinstance(o, float) and (o != o or o in (float('inf'), float('-inf'))):
        return {'$f': repr(o)}
    if isinstance(o, (str, int, float, bool)) or o is None:
        return o
    if isinstance(o, (set, frozenset)):
        return [enc(x) for x in sorted(o, key=repr)]
    return {'$r': repr(o)}


def dec(o):
    if isinstance(o, dict):
        if len(o) == 1:
            if '$b' in o:
                return bytes.fromhex(o['$b'])
            if '$t' in o:
                return tuple(dec(x) for x in o['$t'])
            if '$i' in o:
                return text_to_int(o['$i'])
            if '$f' in o:
                return float(o['$f'])
            if '$r' in o:
                return o['$r']
        return {k: dec(v) for k, v in o.items()}
    if isinstance(o, list):
        return [dec(x) for x in o]
    return o


def short(o, n=160):
    try:
        s = repr(o)
    except ValueError:      # an int with more than 4300 digits somewhere inside
        s = repr(enc(o))
    return s if len(s) <= n else s[:n] + '...(%d chars)' % len(s)


# ------------------------------------------------------------------ recorder
class Recorder:
    """Everything a monitor observes goes here; the verdict is taken from this
    record only (conditions record and return True, they never raise)."""
    MAX_PER_KIND = 40

    def __init__(self):
        self.counters = collections.Counter()
        self.deviations = []
        self.dev_counts = collections.Counter()
        self.distinct = set()
        self.samples = []
        self.extra = {}
        self.case = None      # current case (set by the driver)

    def count(self, name, n=1):
        self.counters[name] += n

    def seen(self, key):
        """Registers a distinct non-trivial case key."""
        self.distinct.add(key if isinstance(key, str) else repr(key))

    def sample(self, s, limit=6):
        if len(self.samples) < limit:
            self.samples.append(s)

    def deviation(self, prop, kind, detail, case=None):
        # Deviations are bucketed at record time by the open known finding they match (or 'unknown'),
        # so that a flood of one known mechanism can never crowd an unlisted one out of the record.
        d = {'property': prop, 'kind': kind, 'detail': enc(detail),
             'case': enc(case if case is not None else self.case)}
        if not __debug__:
            d['python_flags'] = '-O'      # observed by the worker that runs under python -O; the replay re-executes with it
        bucket = known_bucket(d) or 'unknown'
        key = '%s|%s|%s' % (prop, kind, bucket)
        self.dev_counts['%s|%s%s' % (prop, kind, '' if bucket == 'unknown' else '|known:' + bucket)] += 1
        self._stored = getattr(self, '_stored', collections.Counter())
        if self._stored[key] < (self.MAX_PER_KIND if bucket != 'unknown' else 400):
            self._stored[key] += 1
            self.deviations.append(d)

    def dump(self):
        return {'counters': dict(self.counters), 'deviations': self.deviations,
                'dev_counts': dict(self.dev_counts), 'distinct': sorted(self.distinct),
                'samples': self.samples, 'extra': enc(self.extra)}


REC = Recorder()


def merge(dumps):
    m = {'counters': collections.Counter(), 'deviations': [], 'dev_counts': collections.Counter(),
         'distinct': set(), 'samples': [], 'extra': {}}
    for d in dumps:
        m['counters'].update(d['counters'])
        m['deviations'].extend(d['deviations'])
        m['dev_counts'].update(d['dev_counts'])
        m['distinct'].update(d['distinct'])
        for s in d['samples']:
            if len(m['samples']) < 8:
                m['samples'].append(s)
        for k, v in d.get('extra', {}).items():
            if isinstance(v, list):
                cur = m['extra'].setdefault(k, [])
                if all(isinstance(x, str) for x in v):
                    m['extra'][k] = sorted(set(cur) | set(v))
                else:
                    cur.extend(v)
            elif isinstance(v, dict):
                m['extra'].setdefault(k, {})
                for kk, vv in v.items():
                    if isinstance(vv, (int, float)):
                        m['extra'][k][kk] = m['extra'][k].get(kk, 0) + vv
                    else:
                        m['extra'][k][kk] = vv
            elif isinstance(v, (int, float)) and not isinstance(v, bool):
                m['extra'][k] = m['extra'].get(k, 0) + v
            else:
                m['extra'][k] = v
    return m


# ----------------------------------------------------------- sharded running
def load_prop(pid):
    return importlib.import_module('vmon.props.%s' % pid.lower())


def nworkers():
    try:
        n = int(os.environ.get('VERIF_WORKERS', '0'))
    except ValueError:
        n = 0
    return n or min(16, os.cpu_count() or 4)


def run_sharded(pid, cases, timeout_s, extra_args=(), opt_slice=0):
    """Distributes `cases` round-robin over worker subprocesses (never
    multiprocessing.Pool: a dying child must not hang the run). Returns
    (list of dumps, list of problems). A problem makes the run inconclusive.
    With `opt_slice` > 0 one more worker re-runs an evenly spread sample of that many cases under `python -O`
    (asserts stripped, __debug__ False): the property must not hinge on an assert statement being executed."""
    os.makedirs(WORK, exist_ok=True)
    tag = '%s-%d-%d' % (pid, os.getpid(), int(time.time() * 1000) % 100000000)
    n = max(1, min(nworkers(), len(cases)))
    shards = [(cases[i::n], []) for i in range(n)]
    if opt_slice and cases:
        shards.append((cases[::max(1, len(cases) // opt_slice)][:opt_slice], ['-O']))
    procs = []
    for i, (shard, pyflags) in enumerate(shards):
        fin = os.path.join(WORK, '%s-%02d.in.json' % (tag, i))
        fout = os.path.join(WORK, '%s-%02d.out.json' % (tag, i))
        with open(fin, 'w') as f:
            json.dump(enc(shard), f)
        p = subprocess.Popen([sys.executable, '-X', 'faulthandler'] + pyflags + ['-m', 'vmon', 'worker', pid, fin, fout] + list(extra_args),
                             cwd=VERIF, env=dict(child_env(), VERIF_SHARD=str(i)), stdout=subprocess.PIPE, stderr=subprocess.PIPE)
        procs.append((p, fin, fout, i))
    dumps, problems = [], []
    deadline = time.time() + timeout_s
    for p, fin, fout, i in procs:
        try:
            out, err = p.communicate(timeout=max(1, deadline - time.time()))
        except subprocess.TimeoutExpired:
            p.kill()
            out, err = p.communicate()
            problems.append('worker %d: watchdog fired after %ds' % (i, timeout_s))
        if p.returncode != 0:
            tail = (err or b'').decode('utf-8', 'replace').strip().splitlines()[-3:]
            problems.append('worker exit %s: %s' % (p.returncode, ' | '.join(t.strip() for t in tail)[-400:]))
        try:
            with open(fout) as f:
                dumps.append(json.load(f))
        except Exception as ex:  # noqa: BLE001
            problems.append('worker produced no result (%s)' % type(ex).__name__)
        for fn in (fin, fout):
            try:
                os.remove(fn)
            except OSError:
                pass
    uniq = []
    for pr in problems:
        if pr not in uniq:
            uniq.append(pr)
    return dumps, uniq[:6]


def worker_main(pid, fin, fout, extra):
    bootstrap()
    mod = load_prop(pid)
    with open(fin) as f:
        cases = dec(json.load(f))
    rec = REC
    if not __debug__:
        rec.count('cases_under_python_O', len(cases))
    if os.environ.get('VERIF_LINECOV'):
        from vmon import monitors
        monitors.start_reach()
    mod.run_cases(cases, rec, *extra)
    if os.environ.get('VERIF_LINECOV'):
        monitors.dump_lines()
    with open(fout, 'w') as f:
        json.dump(rec.dump(), f)


# ---------------------------------------------------------- known findings
_KNOWN = None


def load_known():
    global _KNOWN
    if _KNOWN is None:
        with open(os.path.join(VERIF, 'known_findings.json')) as f:
            _KNOWN = json.load(f)
    return _KNOWN


def known_bucket(d):
    """id of the open known finding whose classifier matches deviation `d`, else None."""
    from vmon import findings
    for k in load_known()['findings']:
        if k['status'] == 'open' and k['property'] == d['property']:
            fn = findings.CLASSIFIERS.get(k['id'])
            if fn is not None:
                try:
                    if fn(dec(d)):
                        return k['id']
                except Exception:  # noqa: BLE001  a broken classifier must not hide anything
                    pass
    return None


def classify(pid, deviations):
    """Splits deviations into (known: {finding id: [devs]}, unknown: [devs]).
    Only *open* findings of this property are consulted; a fixed entry
    suppresses nothing."""
    from vmon import findings
    known = load_known()
    open_ids = [k for k in known['findings'] if k['property'] == pid and k['status'] == 'open']
    by = collections.OrderedDict()
    unknown = []
    for d in deviations:
        hit = None
        for k in open_ids:
            fn = findings.CLASSIFIERS.get(k['id'])
            if fn is not None:
                try:
                    if fn(dec(d)):
                        hit = k
                        break
                except Exception:  # noqa: BLE001  a broken classifier must not hide anything
                    hit = None
        if hit is None:
            unknown.append(d)
        else:
            by.setdefault(hit['id'], (hit, []))[1].append(d)
    return by, unknown


# --------------------------------------------------------- evidence / verdict
def write_evidence(pid, tier, seed, coverage, wall, violations, assumptions, extra=None):
    # evidence/<id>.json describes runs against the repository under test; runs against a scratch copy (VERIF_REPO set by
    # the mutation / benign / seeded-corpus tools) write next to the other scratch files instead
    evdir = os.path.join(VERIF, 'evidence') if os.path.realpath(REPO) == os.path.realpath('/repo') else os.path.join(WORK, 'evidence-of-scratch-runs')
    os.makedirs(evdir, exist_ok=True)
    ev = {'property_id': pid, 'tier': tier, 'seed': seed, 'level': 'exploration',
          'coverage': coverage, 'assumptions': assumptions, 'wall_s': round(wall, 2),
          'violations': violations}
    if extra:
        ev.update(extra)
    path = os.path.join(evdir, '%s.json' % pid)
    tmp = path + '.%d.tmp' % os.getpid()
    with open(tmp, 'w') as f:
        json.dump(ev, f, indent=1, sort_keys=True)
        f.write('\n')
    os.replace(tmp, path)
    return path


def write_replay(pid, dev):
    os.makedirs(os.path.join(VERIF, 'replay'), exist_ok=True)
    blob = json.dumps(dev, sort_keys=True)
    digest = hashlib.sha256(blob.encode()).hexdigest()[:12]
    path = os.path.join(VERIF, 'replay', '%s-%s.json' % (pid, digest))
    with open(path, 'w') as f:
        json.dump({'property': pid, 'deviation': dev, 'seed': env_seed(), 'tier': env_tier(None),
                   'repo': REPO}, f, indent=1, sort_keys=True)
        f.write('\n')
    return path


def env_seed():
    try:
        return int(os.environ.get('VERIF_SEED', '0'))
    except ValueError:
        return 0


def env_tier(cli_tier):
    t = os.environ.get('VERIF_TIER') or cli_tier or 'quick'
    return t if t in ('quick', 'thorough') else 'quick'


def check_main(pid, cli_tier=None):
    t0 = time.time()
    tier = env_tier(cli_tier)
    seed = env_seed()
    ok = ensure_deps()
    bootstrap()
    mod = load_prop(pid)
    problems = []
    if not ok:
        problems.append('icontract could not be installed into .deps (contracts fall back to plain wrappers)')
    from refmodel import selftest
    for pr in selftest.run():
        problems.append('reference model self-test (values printed in ISO/IEC 18004): %s' % pr)
    cases = mod.gen_cases(tier, seed)
    timeout_s = getattr(mod, 'TIMEOUT', {'quick': 3600, 'thorough': 21600})[tier]
    dumps, probs = run_sharded(pid, cases, timeout_s, extra_args=[tier, str(seed)], opt_slice=getattr(mod, 'OPT_SLICE', {}).get(tier, 0))
    problems.extend(probs)
    if hasattr(mod, 'main_phase'):
        # phases that need the main process (threads, subprocess goldens, ...)
        rec = Recorder()
        try:
            mod.main_phase(tier, seed, rec)
        except Exception as ex:  # noqa: BLE001
            import traceback
            problems.append('main phase failed: %s' % traceback.format_exc()[-1500:])
        dumps.append(json.loads(json.dumps(rec.dump())))
    m = merge(dumps)
    post = {}
    if hasattr(mod, 'post_merge'):
        post = mod.post_merge(m, tier) or {}
    evaluations = m['counters'].get('evaluations', 0)
    known, unknown = classify(pid, m['deviations'])
    # reach
    missing = [c for c in getattr(mod, 'REQUIRED', ['evaluations']) if m['counters'].get(c, 0) <= 0]
    if m['counters'].get('monitor_errors', 0):
        problems.append('%d executions raised inside a monitor (see monitor_error_samples in the evidence)' % m['counters']['monitor_errors'])
    violations = len(unknown)
    total_unknown = violations
    coverage = {
        'evaluations': int(evaluations),
        'distinct_nontrivial': len(m['distinct']),
        'rule': mod.RULE,
        'samples': m['samples'] or [short(c) for c in cases[:3]],
        'counters': {k: int(v) for k, v in sorted(m['counters'].items())},
        'deviation_counts': {k: int(v) for k, v in sorted(m['dev_counts'].items())},
        'known_findings_hit': {k: len(v[1]) for k, v in known.items()},
        'cases_generated': len(cases),
        'workers': nworkers(),
    }
    if getattr(mod, 'EXHAUSTIVE', {}).get(tier):
        coverage['exhaustive'] = True
        coverage['exhaustive_axis'] = mod.EXHAUSTIVE[tier]
    for k, v in m['extra'].items():
        coverage[k] = v
    coverage.update(post)
    if problems:
        coverage['problems'] = problems
    if missing:
        coverage['monitors_not_reached'] = missing
    verdict = 'violated' if violations else ('inconclusive' if (problems or missing) else 'held')
    coverage['verdict'] = verdict
    write_evidence(pid, tier, seed, coverage, time.time() - t0, total_unknown, mod.ASSUMPTIONS)
    # one line per *listed* open finding of this property (observed in this run or not)
    for k in load_known()['findings']:
        if k['property'] != pid or k['status'] != 'open':
            continue
        total = sum(v for kk, v in m['dev_counts'].items() if kk.endswith('|known:' + k['id']))
        if k['id'] in known:
            devs = known[k['id']][1]
            print('KNOWN-FINDING: property=%s %s: %s (%d observations in this run, e.g. %s)' % (
                pid, k['id'], k['what'], total, short(dec(devs[0]['case']), 120)))
        else:
            print('KNOWN-FINDING: property=%s %s: %s (not observed by this run\'s workload)' % (pid, k['id'], k['what']))
    print('%s tier=%s seed=%d evaluations=%d distinct=%d verdict=%s wall=%.1fs' % (
        pid, tier, seed, evaluations, len(m['distinct']), verdict, time.time() - t0))
    if violations:
        shown = set()
        for d in unknown:
            key = d['kind']
            if key in shown:
                continue
            shown.add(key)
            path = write_replay(pid, d)
            print('  deviation kind=%s detail=%s case=%s' % (d['kind'], short(dec(d['detail']), 300), short(dec(d['case']), 300)))
            print('VIOLATION property=%s replay=%s' % (pid, path))
        return 1
    if problems or missing:
        for p in problems:
            print('INCONCLUSIVE: %s' % p)
        for c in missing:
            print('INCONCLUSIVE: deciding monitor %r observed nothing' % c)
        return 2
    return 0


def replay_main(path):
    ensure_deps()
    bootstrap()
    with open(path) as f:
        blob = json.load(f)
    if blob['deviation'].get('python_flags') == '-O' and __debug__:
        # the deviation was observed under python -O: replay in the same kind of interpreter
        return subprocess.run([sys.executable, '-O', '-m', 'vmon', 'replay', path], cwd=VERIF, env=child_env()).returncode
    pid = blob['property']
    mod = load_prop(pid)
    case = dec(blob['deviation']['case'])
    rec = Recorder()
    global REC
    REC = rec
    mod.run_cases([case], rec, blob.get('tier') or 'quick', str(blob.get('seed', 0)))
    known, unknown = classify(pid, rec.dump()['deviations'])
    for d in unknown:
        print('  deviation kind=%s detail=%s' % (d['kind'], short(dec(d['detail']), 600)))
        print('VIOLATION property=%s replay=%s' % (pid, path))
    for fid in known:
        print('KNOWN-FINDING: property=%s %s' % (pid, fid))
    if not unknown:
        print('replay: no violation reproduced (%d evaluations)' % rec.counters.get('evaluations', 0))
    return 1 if unknown else 0
