"""pytest plugin: runs the repository's own test-suite as one more workload under the encode boundary monitor
(DESIGN.md section 5.4). Usage (cwd = repository root):
    VMON_OUT=<file> VMON_PROPS=C01,C02 python -m pytest -p vmon.pytest_plugin -p no:cacheprovider -q tests
The recorder is dumped to VMON_OUT at the end of the session; nothing is written into the repository."""
import json
import os


def pytest_configure(config):
    from vmon import core, monitors
    core.bootstrap()
    props = set(filter(None, os.environ.get('VMON_PROPS', '').split(','))) or None
    rec = core.Recorder()
    rec.case = {'workload': 'repository test-suite'}
    monitors.install(rec, props)
    config._vmon_rec = rec


def pytest_runtest_setup(item):
    rec = getattr(item.config, '_vmon_rec', None)
    if rec is not None:
        rec.case = {'workload': 'repository test-suite', 'test': item.nodeid}


def pytest_unconfigure(config):
    rec = getattr(config, '_vmon_rec', None)
    out = os.environ.get('VMON_OUT')
    if rec is not None and out:
        rec.counters['evaluations'] += rec.counters.get('encode_observed', 0)
        with open(out, 'w') as f:
            json.dump(rec.dump(), f)
