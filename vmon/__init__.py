"""vmon - runtime monitors, oracles and workload drivers for heuer/segno (see /verif/DESIGN.md)."""
