"""Oracles over emitted QR / Micro QR symbols (properties C01-C08, C13).

Everything here is computed from the module matrix with the independent
reference model (refmodel.qr imports nothing from segno) plus the *arguments*
of the observed call. The functions return lists of (property, kind, detail).
"""
import codecs

from refmodel import qr

LEVELS = ['L', 'M', 'Q', 'H']
MICRO = ['M1', 'M2', 'M3', 'M4']
ALL_VERSIONS = MICRO + list(range(1, 41))
MODES = ['numeric', 'alphanumeric', 'byte', 'kanji', 'hanzi']
GROUP = {'numeric': 3, 'alphanumeric': 2}

# AIM ECI assignment numbers (ISO/IEC 18004 refers to AIM ITS/04-023), keyed by the
# canonical name Python's codec registry reports. Written down independently of
# segno.consts.ECI_ASSIGNMENT_NUM. A set lists every admissible number.
ECI_NUMBERS = {
    'cp437': {0, 2}, 'iso8859-1': {1, 3}, 'iso8859-2': {4}, 'iso8859-3': {5}, 'iso8859-4': {6},
    'iso8859-5': {7}, 'iso8859-6': {8}, 'iso8859-7': {9}, 'iso8859-8': {10}, 'iso8859-9': {11},
    'iso8859-10': {12}, 'iso8859-11': {13}, 'iso8859-13': {15}, 'iso8859-14': {16},
    'iso8859-15': {17}, 'iso8859-16': {18}, 'shift_jis': {20}, 'cp1250': {21}, 'cp1251': {22},
    'cp1252': {23}, 'cp1256': {24}, 'utf-16-be': {25}, 'utf-8': {26}, 'ascii': {27},
    'big5': {28}, 'gb2312': {29}, 'gbk': {29}, 'gb18030': {29}, 'euc_kr': {30},
}


class Refuse(Exception):
    """The specification-level model says: this call has to be refused."""


def codec_name(enc):
    return codecs.lookup(enc).name


def safe_codec_name(enc):
    """Canonical codec name; for bytes content the encoding argument is only a label, so an
    unknown label is kept verbatim (it can never match an ISO assignment)."""
    try:
        return codec_name(enc)
    except LookupError:
        return 'unknown:%s' % enc


def is_hanzi_pairs(data):
    if len(data) % 2:
        return False
    for i in range(0, len(data), 2):
        hi, lo = data[i], data[i + 1]
        if not (0xA1 <= lo <= 0xFE):
            return False
        if not (0xA1 <= hi <= 0xAA or 0xB0 <= hi <= 0xFA):
            return False
    return True


def is_kanji_pairs_or_empty(data):
    return len(data) == 0 or qr.is_sjis_kanji_pairs(data)


def representable(mode, data):
    if mode == 'numeric':
        return all(0x30 <= b <= 0x39 for b in data)
    if mode == 'alphanumeric':
        return all(chr(b) in qr.ALNUM for b in data)
    if mode == 'byte':
        return True
    if mode == 'kanji':
        return is_kanji_pairs_or_empty(data)
    if mode == 'hanzi':
        return is_hanzi_pairs(data)
    raise ValueError(mode)


def norm_mode(mode):
    """Documented spellings of a mode -> canonical name (None stays None).
    Returns '?' for values the documentation does not admit."""
    if mode is None:
        return None
    if isinstance(mode, str) and mode.lower() in MODES:
        return mode.lower()
    if isinstance(mode, int) and not isinstance(mode, bool) and mode in _MODE_INDICATORS:
        # the library also accepts its mode constants, which are the ISO mode indicators
        return _MODE_INDICATORS[mode]
    return '?'


_MODE_INDICATORS = {1: 'numeric', 2: 'alphanumeric', 4: 'byte', 8: 'kanji', 13: 'hanzi'}


def spec_part(content, mode, encoding):
    """One content part -> dict(data, mode, requested, encoding, eci_codec, alias).
    Raises UnicodeError / LookupError exactly where the documented text->bytes
    policy does; raises Refuse where a requested mode cannot represent the data."""
    req = norm_mode(mode)
    if req == '?':
        raise Refuse('illegal mode %r' % (mode,))
    if req == 'hanzi':
        encoding = 'gb2312'
    if isinstance(content, (bytes, bytearray)):
        data = bytes(content)
        enc_used = encoding or 'iso-8859-1'
    else:
        if isinstance(content, int) and not isinstance(content, bool):
            from vmon.core import int_to_text
            text = int_to_text(content)      # (str() refuses more than 4300 digits; the digits are the content all the same)
        else:
            text = str(content)
        if encoding is not None:
            data = text.encode(encoding)
            enc_used = encoding
        else:
            for e in ('iso-8859-1', 'shift_jis', 'utf-8'):
                try:
                    data = text.encode(e)
                    enc_used = e
                    break
                except UnicodeError:
                    continue
    used = req or qr.expected_auto_mode(data)
    rep = representable(used, data)
    return {'data': data, 'mode': used, 'requested': req, 'representable': rep,
            'encoding': enc_used if used == 'byte' else None,
            'codec': safe_codec_name(enc_used) if used == 'byte' else None,
            # segno compares the *spelling* with 'iso-8859-1'; a Latin-1 alias may carry ECI 3 (DESIGN 4.1)
            'alias': used == 'byte' and safe_codec_name(enc_used) == 'iso8859-1' and enc_used != 'iso-8859-1'}


def spec_parts(content, mode=None, encoding=None):
    if isinstance(content, (str, bytes, bytearray, int)):
        return [spec_part(content, mode, encoding)]
    parts = []
    for item in content:
        c, m, e = item, mode, encoding
        if isinstance(item, tuple):
            c = item[0]
            if len(item) > 1:
                m = item[1] or mode
            if len(item) > 2:
                e = item[2] or encoding
        parts.append(spec_part(c, m, e))
    return parts


def expected_payload(parts):
    return b''.join(p['data'] for p in parts)


def mode_available(version, mode):
    if qr.is_micro(version):
        if mode == 'hanzi':
            return False
        return qr.cci_len(version, mode) is not None
    return True


def levels_of(version):
    if version == 'M1':
        return [None]
    if version in ('M2', 'M3'):
        return ['L', 'M']
    if version == 'M4':
        return ['L', 'M', 'Q']
    return LEVELS


def capacity(version, level):
    try:
        return qr.data_bits_capacity(version, level)
    except KeyError:
        return None


def seg_cost(version, mode, nbytes, eci=False):
    return qr.segment_bits(version, mode, nbytes, eci_header=eci)


def segmentations(parts, eci):
    """Candidate segment lists [(mode, nbytes, eci_header)] a conforming encoder
    may produce for multi-part content (DESIGN 4.1 / C04): parts kept separate,
    or adjacent parts of equal mode (and codec) merged. Alias spellings of
    Latin-1 may or may not carry an ECI header."""
    def hdr(p, alias_gets_header):
        if not eci or p['mode'] != 'byte':
            return False
        if p['codec'] != 'iso8859-1':
            return True
        return p['alias'] and alias_gets_header

    out = []
    for alias_hdr in (False, True):
        sep = [(p['mode'], len(p['data']), hdr(p, alias_hdr)) for p in parts]
        out.append(sep)
        merged = []
        for p in parts:
            h = hdr(p, alias_hdr)
            if merged and merged[-1][0] == p['mode'] and merged[-1][3] == p['codec']:
                m = merged[-1]
                merged[-1] = (m[0], m[1] + len(p['data']), m[2], m[3])
            else:
                merged.append((p['mode'], len(p['data']), h, p['codec']))
        out.append([(m[0], m[1], m[2]) for m in merged])
        if not any(p['alias'] for p in parts):
            break
    # de-duplicate
    res = []
    for s in out:
        if s not in res:
            res.append(s)
    return res


def bits_of(version, segs, sa=False):
    total = 20 if sa else 0
    for mode, nbytes, h in segs:
        c = seg_cost(version, mode, nbytes, eci=h)
        if c is None:
            return None
        total += c
    return total


def admissible_versions(micro, eci, error, modes, sa=False):
    """Order M1 < M2 < M3 < M4 < 1 .. 40 restricted as C04 states."""
    out = []
    for v in ALL_VERSIONS:
        if qr.is_micro(v):
            if micro is False or eci or sa:
                continue
            if v == 'M1' and error is not None:
                continue
            if error is not None and error not in levels_of(v):
                continue
            if not all(mode_available(v, m) for m in modes):
                continue
        elif micro is True:
            continue
        out.append(v)
    return out


def first_fit(segs, micro, eci, error, sa=False):
    modes = [s[0] for s in segs]
    for v in admissible_versions(micro, eci, error, modes, sa):
        lvl = error if error is not None else (None if v == 'M1' else 'L')
        cap = capacity(v, lvl)
        if cap is None:
            continue
        b = bits_of(v, segs, sa)
        if b is not None and b <= cap:
            return v
    return None


def version_index(v):
    return ALL_VERSIONS.index(v)


# ---------------------------------------------------------------- the symbol
PARTIAL = [None]


def read(matrix):
    """-> (Symbol or None, error string or None); the partial symbol of a failed read is kept in PARTIAL[0]."""
    PARTIAL[0] = None
    try:
        return qr.read_symbol([list(r) for r in matrix], correct=False), None
    except qr.DecodeError as ex:
        PARTIAL[0] = getattr(ex, 'partial', None)
        return None, str(ex)


def check_geometry_and_format(s, out):
    """C02 (matrix part) and C03 syndromes on an already decoded symbol."""
    if s.function_pattern_errors:
        kinds = sorted({k for _, _, k in s.function_pattern_errors})
        out.append(('C02', 'function-pattern', {'n': len(s.function_pattern_errors), 'classes': kinds,
                                                'first': s.function_pattern_errors[:4], 'version': s.version}))
    want = qr.format_word(s.version, s.level, s.mask)
    if any(w != want for w in s.format_copies) or not all(s.format_valid):
        out.append(('C02', 'format-info', {'copies': [hex(w) for w in s.format_copies], 'want': hex(want),
                                           'version': s.version}))
    if s.version_copies is not None:
        vw = qr.version_word(s.version)
        if any(w != vw for w in s.version_copies):
            out.append(('C02', 'version-info', {'copies': [hex(w) for w in s.version_copies], 'want': hex(vw)}))
    if not all(s.block_syndromes_ok):
        out.append(('C03', 'syndrome', {'version': s.version, 'level': s.level,
                                        'bad_blocks': [i for i, ok in enumerate(s.block_syndromes_ok) if not ok]}))


def check_metadata(s, meta, out):
    """C02: what the QRCode object reports vs. what is physically in the matrix."""
    size = s.size
    micro = qr.is_micro(s.version)
    want = {
        'version': s.version,
        'error': s.level,
        'mask': s.mask,
        'is_micro': micro,
        'designator': ('%s-%s' % (s.version, s.level)) if s.level else str(s.version),
        'symbol_size': (size + 2 * (2 if micro else 4),) * 2,
        'default_border_size': 2 if micro else 4,
        'symbol_size_3_1': ((size + 2) * 3,) * 2,
        'symbol_size_2_0': (size * 2,) * 2,
        'symbol_size_2.5_default': ((size + 2 * (2 if micro else 4)) * 2.5,) * 2,
        # (float scales that are not exact in binary: compared with a relative tolerance of 1e-9 below)
        'symbol_size_2.01_default': ((size + 2 * (2 if micro else 4)) * 2.01,) * 2,
        'symbol_size_8.19_0': (size * 8.19,) * 2, 'symbol_size_0.333_3': ((size + 6) * 0.333,) * 2,
        # segno.utils called directly with the matrix size
        'u:default_border': 2 if micro else 4, 'u:border_none': 2 if micro else 4, 'u:border_7': 7, 'u:border_0': 0,
        'u:symbol_size_default': (size + 2 * (2 if micro else 4),) * 2, 'u:symbol_size_3_1': ((size + 2) * 3,) * 2,
        'u:symbol_size_1_0': (size,) * 2,
    }
    modes = [x['mode'] for x in s.segments]
    want['mode'] = modes[0] if len(modes) == 1 else None
    def same(k, got, exp):
        if got == exp:
            return True
        if 'symbol_size' in k:
            try:
                got = tuple(got)
                return got == exp or (len(got) == 2 and all(abs(g - e) <= 1e-9 * max(1.0, abs(e)) for g, e in zip(got, exp)))
            except TypeError:
                return False
        return False
    bad = {k: (meta.get(k), v) for k, v in want.items() if k in meta and not same(k, meta.get(k), v)}
    if bad and s.parse_error is None:
        out.append(('C02', 'metadata', {'reported_vs_matrix': bad}))
    elif bad:
        bad.pop('mode', None)
        if bad:
            out.append(('C02', 'metadata', {'reported_vs_matrix': bad}))


def check_payload_and_eci(s, parts, eci, out):
    """C01."""
    if s.parse_error is not None:
        out.append(('C01', 'undecodable-stream', {'error': s.parse_error, 'version': s.version, 'level': s.level,
                                                  'segments': [(x['mode'], x['count']) for x in s.segments]}))
        return
    want = expected_payload(parts)
    if s.payload != want:
        out.append(('C01', 'payload', {'decoded': s.payload[:80], 'expected': want[:80],
                                       'len_decoded': len(s.payload), 'len_expected': len(want),
                                       'segments': [(x['mode'], x['count']) for x in s.segments][:8]}))
        return
    micro = qr.is_micro(s.version)
    if (micro or not eci) and s.eci_headers:
        out.append(('C01', 'eci-unexpected', {'headers': s.eci_headers, 'version': s.version, 'eci': eci}))
        return
    if not eci:
        return
    # Map decoded byte segments back to parts by byte offset
    bounds = []
    off = 0
    for p in parts:
        bounds.append((off, off + len(p['data']), p))
        off += len(p['data'])
    off = 0
    for seg in s.segments:
        n = len(seg['payload'])
        if seg['mode'] == 'byte':
            covered = [p for (a, b, p) in bounds if a < off + n and b > off and p['mode'] == 'byte'] or \
                      [p for (a, b, p) in bounds if a <= off <= b and p['mode'] == 'byte']
            codecs_ = {p['codec'] for p in covered}
            if len(codecs_) == 1:
                cn = codecs_.pop()
                allowed = ECI_NUMBERS.get(cn)
                if cn == 'iso8859-1':
                    if seg['eci'] is not None and (seg['eci'] not in allowed or not any(p['alias'] for p in covered)):
                        out.append(('C01', 'eci-number', {'codec': cn, 'eci': seg['eci'],
                                                          'note': 'ISO-8859-1 part carries an ECI header'}))
                elif allowed is None:
                    out.append(('C01', 'eci-number', {'codec': cn, 'eci': seg['eci'],
                                                      'note': 'no ISO assignment known to the oracle for this codec'}))
                elif seg['eci'] is None:
                    out.append(('C01', 'eci-missing', {'codec': cn}))
                elif seg['eci'] not in allowed:
                    out.append(('C01', 'eci-number', {'codec': cn, 'eci': seg['eci'], 'allowed': sorted(allowed)}))
        elif seg['eci'] is not None:
            out.append(('C01', 'eci-unexpected', {'mode': seg['mode'], 'eci': seg['eci']}))
        off += n


def check_tail(s, out):
    """C13: terminator, alignment bits, pad codewords, final nibble, remainder."""
    if s.parse_error is not None:
        # the bits after the segments cannot even be parsed as terminator / padding
        out.append(('C13', 'stream-unparsable', {'error': s.parse_error, 'version': s.version, 'level': s.level}))
        return
    st = s.structure
    bad = []
    if not st['terminator_zero']:
        bad.append('terminator')
    if not st['align_pad_zero']:
        bad.append('alignment-bits')
    if not st['pad_codewords_ok']:
        bad.append('pad-codewords')
    if not st['final_nibble_zero']:
        bad.append('final-nibble')
    if not st['remainder_zero']:
        bad.append('remainder-bits')
    if bad:
        cap = len(s.data_bits)
        out.append(('C13', 'tail', {'what': bad, 'version': s.version, 'level': s.level,
                                    'end_of_segments': s.end_of_segments, 'capacity': cap,
                                    'terminator_bits': st['terminator_bits'], 'align_pad_bits': st['align_pad_bits'],
                                    'pad_codewords': st['pad_codewords'][:6], 'n_pads': len(st['pad_codewords']),
                                    'pads_tail_ok': pads_ok_after(st['pad_codewords'], 1),
                                    'final_nibble': st['final_nibble'], 'remainder': s.remainder}))


def pads_ok_after(pads, skip):
    rest = pads[skip:]
    return rest == [0xEC if i % 2 == 0 else 0x11 for i in range(len(rest))]


def check_modes(s, parts, out):
    """C07: decoded mode indicators vs. the specification-level expectation."""
    if s.parse_error is not None:
        return
    if len(parts) == 1:
        p = parts[0]
        modes = [x['mode'] for x in s.segments]
        if modes != [p['mode']]:
            out.append(('C07', 'mode', {'decoded': modes, 'expected': p['mode'], 'requested': p['requested'],
                                        'data': p['data'][:40]}))
    else:
        # every decoded segment must be in the mode of the part(s) it covers
        bounds = []
        off = 0
        for p in parts:
            bounds.append((off, off + len(p['data']), p))
            off += len(p['data'])
        off = 0
        for seg in s.segments:
            n = len(seg['payload'])
            covered = {p['mode'] for (a, b, p) in bounds if a < off + n and b > off}
            if n and covered and covered != {seg['mode']}:
                out.append(('C07', 'mode', {'decoded': seg['mode'], 'expected': sorted(covered), 'offset': off}))
            off += n
    for seg in s.segments:
        if not mode_available(s.version, seg['mode']):
            out.append(('C07', 'mode-version', {'mode': seg['mode'], 'version': s.version}))


def decoded_segs(s):
    return [(x['mode'], len(x['payload']), x['eci'] is not None) for x in s.segments]


def check_version_choice(s, parts, args, out):
    """C04 for an accepted call."""
    if s.parse_error is not None:
        return
    req_version = args.get('version_name')
    error = args.get('error_name')
    micro = args.get('micro')
    eci = bool(args.get('eci'))
    sa = s.sa is not None
    segs = decoded_segs(s)
    if req_version is not None:
        if s.version != req_version:
            out.append(('C04', 'version-not-as-requested', {'requested': req_version, 'got': s.version}))
        return
    cands = segmentations(parts, eci)
    # the segmentation found in the symbol is one more admissible way to write the content - but only if it
    # really carries the content (a symbol that lost a part must not justify its own smaller version)
    if segs not in cands and (not cands or s.payload == expected_payload(parts)):
        cands = cands + [segs]
    fits = [first_fit(c, micro, eci, error, sa) for c in cands]
    fits = [f for f in fits if f is not None]
    if not fits:
        out.append(('C04', 'accepted-but-nothing-fits', {'got': s.version, 'segments': segs}))
        return
    lo = min(fits, key=version_index)
    hi = max(fits, key=version_index)
    if not (version_index(lo) <= version_index(s.version) <= version_index(hi)):
        out.append(('C04', 'version-not-minimal', {'got': s.version, 'expected': lo if lo == hi else [lo, hi],
                                                   'segments': segs, 'error': error, 'micro': micro, 'eci': eci}))


def check_level_choice(s, parts, args, out):
    """C05 for an accepted call (the version pairing is done by the driver)."""
    if s.parse_error is not None:
        return
    error = args.get('error_name')
    boost = args.get('boost_error', True)
    micro = qr.is_micro(s.version)
    if micro and s.level == 'H':
        out.append(('C05', 'micro-H', {'version': s.version}))
    if s.version == 'M1':
        if s.level is not None:
            out.append(('C05', 'm1-level', {'level': s.level}))
        return
    requested = error or 'L'
    if s.level is None or LEVELS.index(s.level) < LEVELS.index(requested):
        out.append(('C05', 'level-below-request', {'requested': requested, 'got': s.level, 'version': s.version}))
        return
    if not boost:
        if s.level != requested:
            out.append(('C05', 'level-changed-without-boost', {'requested': requested, 'got': s.level}))
        return
    if len(parts) != 1:
        return
    used = s.end_of_segments
    best = requested
    for lv in levels_of(s.version):
        if LEVELS.index(lv) > LEVELS.index(best) and capacity(s.version, lv) >= used:
            best = lv
    if s.level != best:
        out.append(('C05', 'boost-level', {'got': s.level, 'expected': best, 'requested': requested,
                                           'version': s.version, 'bits': used}))


# ------------------------------------------------------------------- masks
def _n3_segno_scan(seq, size):
    """The non-overlapping scan of the pinned implementation (known finding
    n3-overlap-skipped); used only to *classify* a disagreement."""
    pat = bytes((1, 0, 1, 1, 1, 0, 1))
    seq = bytes(seq)
    count = 0
    idx = seq.find(pat)
    while idx != -1:
        offset = idx + 7
        if idx in (0, size - 7) or not any(seq[max(idx - 4, 0):min(idx, size)]) \
                or not any(seq[max(offset, 0):min(offset + 4, size)]):
            count += 40
        else:
            offset = idx + 4
        idx = seq.find(pat, offset)
    return count


def n3_nonoverlap(m):
    size = len(m)
    total = 0
    for r in range(size):
        total += _n3_segno_scan(m[r], size)
    for c in range(size):
        total += _n3_segno_scan([m[r][c] for r in range(size)], size)
    return total


def mask_candidates(s, matrix):
    """Re-creates every candidate masking from the emitted matrix: function
    patterns as emitted, format/version areas and the dark module light,
    encoding region = unmasked data XOR candidate pattern."""
    size = s.size
    base = [list(r) for r in matrix]
    for pos in qr.format_positions(s.version):
        for (r, c) in pos:
            base[r][c] = 0
    if not qr.is_micro(s.version):
        base[size - 8][8] = 0
        if s.version >= 7:
            for pos in qr.version_positions(s.version):
                for (r, c) in pos:
                    base[r][c] = 0
    used = qr.mask_fn(s.version, s.mask)
    n = 4 if qr.is_micro(s.version) else 8
    cands = []
    for k in range(n):
        fn = qr.mask_fn(s.version, k)
        m = [row[:] for row in base]
        for (r, c) in s.order:
            m[r][c] = matrix[r][c] ^ (1 if used(r, c) else 0) ^ (1 if fn(r, c) else 0)
        cands.append(m)
    return cands


def check_mask(s, matrix, args, out):
    """C06."""
    req = args.get('mask_int')
    if req is not None:
        if s.mask != req:
            out.append(('C06', 'mask-not-as-requested', {'requested': req, 'got': s.mask}))
        return None
    cands = mask_candidates(s, matrix)
    if qr.is_micro(s.version):
        scores = [qr.score_micro(m) for m in cands]
        best = max(range(len(scores)), key=lambda k: (scores[k], -k))
        if best != s.mask:
            out.append(('C06', 'auto-mask', {'got': s.mask, 'expected': best, 'scores': scores, 'version': s.version}))
        return scores
    parts = [qr.penalty_qr(m) for m in cands]
    scores = [sum(p) for p in parts]
    best = min(range(8), key=lambda k: (scores[k], k))
    if best != s.mask:
        alt = [p[0] + p[1] + n3_nonoverlap(m) + p[3] for p, m in zip(parts, cands)]
        alt_best = min(range(8), key=lambda k: (alt[k], k))
        out.append(('C06', 'auto-mask', {'got': s.mask, 'expected': best, 'scores': scores,
                                         'nonoverlap_scores': alt, 'nonoverlap_best': alt_best,
                                         'version': s.version}))
    return scores


# ----------------------------------------------------------- whole post-check
def normalize_args(args):
    """Documented spellings of version/error/mask -> canonical names for the
    oracle (independent of segno's normalisers). Unknown spellings -> KeyError
    in the caller's domain logic, never here (those calls are refused anyway)."""
    a = dict(args)
    v = a.get('version')
    vn = None
    if v is not None:
        if isinstance(v, str) and v.upper() in MICRO:
            vn = v.upper()
        else:
            try:
                vn = int(v)
            except (TypeError, ValueError):
                vn = '?'
    a['version_name'] = vn
    e = a.get('error')
    if isinstance(e, int) and not isinstance(e, bool) and e in (0, 1, 2, 3):
        # the library also accepts its level constants, which are the ISO format-information level bits
        a['error_name'] = {1: 'L', 0: 'M', 3: 'Q', 2: 'H'}[e]
    else:
        a['error_name'] = e.upper() if isinstance(e, str) and e.upper() in LEVELS else (None if e is None else '?')
    m = a.get('mask')
    try:
        a['mask_int'] = None if m is None else int(m)
    except (TypeError, ValueError):
        a['mask_int'] = '?'
    return a


def check_symbol(matrix, args, meta=None, props=None):
    """Runs the oracles selected by `props` (None = all) on one emitted symbol.
    args: the keyword arguments of the observed encode call (content, error,
    version, mode, mask, encoding, eci, micro, boost_error).
    Returns (deviations, Symbol or None, info)."""
    out = []
    want = set(props) if props is not None else None

    def on(p):
        return want is None or p in want

    info = {}
    size_ok = True
    try:
        n = len(matrix)
        if any(len(r) != n for r in matrix):
            size_ok = False
    except TypeError:
        size_ok = False
    s, err = read(matrix) if size_ok else (None, 'matrix is not square')
    if s is None:
        # attribute: geometry / format problems are C02; block problems C03; everything is also C01
        prop = 'C03' if err and 'RS codeword' in err else 'C02'
        out.append((prop, 'unreadable', {'error': err}))
        part = PARTIAL[0]
        fpe = getattr(part, 'function_pattern_errors', None)
        if fpe:
            out.append(('C02', 'function-pattern', {'n': len(fpe), 'classes': sorted({k for _, _, k in fpe}), 'first': fpe[:4],
                                                    'version': getattr(part, 'version', None)}))
        # a symbol the reference decoder cannot read satisfies none of the decoding-based properties
        for pp in ('C01', 'C02', 'C03', 'C04', 'C05', 'C06', 'C07', 'C13'):
            if on(pp) and want is not None and pp != prop:
                out.append((pp, 'unreadable', {'error': err}))
        if want is None:
            out.append(('C01', 'unreadable', {'error': err}))
        return [d for d in out if on(d[0])], None, info
    a = normalize_args(args)
    if 'content' not in args:
        # structure-only check (no call arguments known): geometry, format/version words, syndromes, tail
        check_geometry_and_format(s, out)
        if meta is not None:
            check_metadata(s, meta, out)
        if on('C13'):
            check_tail(s, out)
        return [d for d in out if on(d[0])], s, info
    try:
        parts = spec_parts(a.get('content'), a.get('mode'), a.get('encoding'))
    except Refuse as ex:
        out.append(('C07', 'accepted-illegal-mode', {'why': str(ex)}))
        return [d for d in out if on(d[0])], s, info
    except (UnicodeError, LookupError) as ex:
        out.append(('C01', 'accepted-unencodable', {'why': repr(ex)}))
        return [d for d in out if on(d[0])], s, info
    info['parts'] = parts
    if s.parse_error is not None:
        # the data bit stream cannot be parsed (typically: content cut at the capacity of the chosen version / level):
        # none of the properties that are read off the decoded segments can hold for this symbol
        for pp in ('C04', 'C05', 'C07'):
            if on(pp) and want is not None:
                out.append((pp, 'stream-unparsable', {'error': s.parse_error, 'version': s.version, 'level': s.level}))
    check_geometry_and_format(s, out)
    if meta is not None:
        check_metadata(s, meta, out)
    if on('C01'):
        check_payload_and_eci(s, parts, bool(a.get('eci')), out)
    if on('C13'):
        check_tail(s, out)
    if on('C07'):
        check_modes(s, parts, out)
        for p in parts:
            if p['requested'] and not p['representable'] and len(p['data']):
                out.append(('C07', 'accepted-unrepresentable', {'mode': p['requested'], 'data': p['data'][:40]}))
    if on('C04'):
        check_version_choice(s, parts, a, out)
    if on('C05'):
        check_level_choice(s, parts, a, out)
    if on('C06'):
        info['mask_scores'] = check_mask(s, matrix, a, out)
        if s.function_pattern_errors:
            out.append(('C06', 'function-modules-changed', {'n': len(s.function_pattern_errors),
                                                            'first': s.function_pattern_errors[:4]}))
    return [d for d in out if on(d[0])], s, info
