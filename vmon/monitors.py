"""Boundary monitors attached to the real segno functions from the outside
(DESIGN.md 2.1). No source edit is needed: `segno.make*` look `encoder.encode`
up as a module attribute on every call, `QRCode.save` looks `writers.save` up
the same way, so rebinding the attribute with a contract-decorated function
puts the monitor on every route.

Contracts are icontract `ensure` post-conditions with *named* condition
functions and an explicit error class; the conditions record what they saw
and return True - the verdict is taken from the record, so a monitor can
never change the behaviour it observes. Every contract counts its evaluations.
"""
import os
import sys

try:
    import icontract
    HAVE_ICONTRACT = True
except Exception:  # noqa: BLE001
    icontract = None
    HAVE_ICONTRACT = False

from vmon import oracle


class MonitorBroken(Exception):
    """Raised only if a post-condition itself returns False (never by design)."""


class State:
    rec = None
    props = None          # properties whose oracles run in the encode post-condition
    installed = False
    last = None           # (args, result, deviations, symbol, info) of the latest encode observed
    seq_last = None
    originals = {}
    reached = set()
    lines = set()


def _meta_of(segno, code):
    q = segno.QRCode(code)
    from segno import utils
    n = len(code.matrix)
    direct = {'u:default_border': utils.get_default_border_size((n, n)), 'u:border_none': utils.get_border((n, n), None),
              'u:border_7': utils.get_border((n, n), 7), 'u:border_0': utils.get_border((n, n), 0),
              'u:symbol_size_default': utils.get_symbol_size((n, n)),
              'u:symbol_size_3_1': utils.get_symbol_size((n, n), scale=3, border=1),
              'u:symbol_size_1_0': utils.get_symbol_size((n, n), 1, 0)}
    return q, {**direct, 'version': q.version, 'error': q.error, 'mask': q.mask, 'is_micro': q.is_micro,
               'designator': q.designator, 'mode': q.mode, 'symbol_size': q.symbol_size(),
               'default_border_size': q.default_border_size,
               'symbol_size_3_1': q.symbol_size(scale=3, border=1), 'symbol_size_2_0': q.symbol_size(2, 0),
               'symbol_size_2.5_default': q.symbol_size(scale=2.5),
               'symbol_size_2.01_default': q.symbol_size(scale=2.01), 'symbol_size_8.19_0': q.symbol_size(scale=8.19, border=0),
               'symbol_size_0.333_3': q.symbol_size(scale=0.333, border=3)}


_CLONE_KEYS = ('version', 'error', 'mask', 'is_micro', 'designator', 'mode', 'symbol_size', 'default_border_size')


def clone_deviations(q, meta):
    """Copies of a QRCode object (copy, deepcopy, pickle round trip) are QRCode objects too: same matrix, same
    reported metadata. Returns a list of (how, key, clone value, original value)."""
    import copy
    import pickle
    out = []
    for how, make in (('copy.copy', copy.copy), ('copy.deepcopy', copy.deepcopy),
                      ('pickle', lambda o: pickle.loads(pickle.dumps(o))), ('pickle-2', lambda o: pickle.loads(pickle.dumps(o, 2)))):
        try:
            c = make(q)
        except Exception:  # noqa: BLE001
            # the property does not promise that the object can be copied / pickled - only a clone that exists is judged
            State.rec.count('clone_not_possible:%s' % how)
            continue
        if type(c) is not type(q):
            continue
        if [bytes(r) for r in c.matrix] != [bytes(r) for r in q.matrix]:
            out.append((how, 'matrix', None, None))
        for k in _CLONE_KEYS:
            v = getattr(c, k)
            v = v() if callable(v) else v
            if v != meta[k] and not (k == 'symbol_size' and tuple(v) == tuple(meta[k])):
                out.append((how, k, v, meta[k]))
    return out


def observe_encode(args, result):
    """The shared post-condition body for encoder.encode. An error inside the
    monitor must never leak into the observed program: it is recorded (and
    makes the run inconclusive) and the condition still returns True."""
    try:
        return _observe_encode(args, result)
    except Exception:  # noqa: BLE001
        import traceback
        State.rec.count('monitor_errors')
        State.rec.extra.setdefault('monitor_error_samples', [])
        if len(State.rec.extra['monitor_error_samples']) < 3:
            State.rec.extra['monitor_error_samples'].append(traceback.format_exc()[-800:])
        return True


def _observe_encode(args, result):
    import segno
    rec = State.rec
    rec.count('encode_observed')
    if not isinstance(args.get('content'), (str, bytes, bytearray, int, list, tuple)) and isinstance(rec.case, dict) \
            and isinstance(rec.case.get('content'), list):
        # the driver handed a one-shot iterator over: the parts are the ones of the case
        args = dict(args, content=rec.case['content'])
    try:
        q, meta = _meta_of(segno, result)
    except Exception as ex:  # noqa: BLE001
        rec.deviation('C02', 'metadata-raises', {'error': repr(ex)}, case=rec.case)
        meta = None
    if meta is not None and (State.props is None or 'C02' in State.props) and rec.counters['encode_observed'] % 7 == 0:
        rec.count('clones_compared')
        bad = clone_deviations(q, meta)
        if bad:
            rec.deviation('C02', 'metadata-of-copy', {'differences': bad[:6]})
    devs, s, info = oracle.check_symbol(result.matrix, args, meta, State.props)
    for prop, kind, detail in devs:
        rec.deviation(prop, kind, detail)
    State.last = (args, result, devs, s, info)
    if s is not None:
        rec.count('symbols_decoded')
        seg_modes = '+'.join(x['mode'] for x in s.segments) or 'empty'
        rec.seen('%s|%s|%s|%s' % (s.version, s.level, s.mask, seg_modes))
        rec.count('mode:%s:%s' % ('micro' if isinstance(s.version, str) else 'qr', seg_modes if len(s.segments) == 1 else 'multi'))
    return True


def encode_post(content, error, version, mode, mask, encoding, eci, micro, boost_error, result):
    return observe_encode({'content': content, 'error': error, 'version': version, 'mode': mode, 'mask': mask,
                           'encoding': encoding, 'eci': eci, 'micro': micro, 'boost_error': boost_error}, result)


def encode_sequence_post(content, error, version, mode, mask, encoding, eci, boost_error, symbol_count, result):
    rec = State.rec
    rec.count('encode_sequence_observed')
    State.seq_last = ({'content': content, 'error': error, 'version': version, 'mode': mode, 'mask': mask,
                       'encoding': encoding, 'eci': eci, 'boost_error': boost_error,
                       'symbol_count': symbol_count}, list(result))
    return True


def _plain_post(fn, cond):
    """Fallback when icontract is not available: same record-and-return-True
    semantics with a plain wrapper."""
    import functools
    import inspect
    sig = inspect.signature(fn)

    @functools.wraps(fn)
    def wrapper(*a, **kw):
        result = fn(*a, **kw)
        ba = sig.bind(*a, **kw)
        ba.apply_defaults()
        if not cond(result=result, **ba.arguments):
            raise MonitorBroken(fn.__name__)
        return result
    return wrapper


def contract(fn, cond):
    if HAVE_ICONTRACT and __debug__:      # (icontract switches itself off under python -O; the plain wrapper does not)
        return icontract.ensure(cond, error=MonitorBroken)(fn)
    return _plain_post(fn, cond)


def install(rec, props=None):
    """Installs the encode / encode_sequence boundary monitors."""
    import segno
    import segno.cli  # noqa: F401  must see the original writers first
    from segno import encoder
    State.rec = rec
    State.props = props
    if State.installed:
        return
    State.originals['encode'] = encoder.encode
    State.originals['encode_sequence'] = encoder.encode_sequence
    encoder.encode = contract(encoder.encode, encode_post)
    encoder.encode_sequence = contract(encoder.encode_sequence, encode_sequence_post)
    State.installed = True
    rec.extra['contract_library'] = 'icontract %s' % icontract.__version__ if HAVE_ICONTRACT else 'plain wrapper (icontract missing)'


def uninstall():
    from segno import encoder
    if State.installed:
        encoder.encode = State.originals['encode']
        encoder.encode_sequence = State.originals['encode_sequence']
        State.installed = False


# ------------------------------------------------------- reach (sys.monitoring)
_TOOL = 3


def start_reach():
    """Counts which functions of segno/*.py were entered at least once. The
    callback returns DISABLE, so each code object costs one event only."""
    mon = getattr(sys, 'monitoring', None)
    if mon is None:
        return False
    try:
        mon.use_tool_id(_TOOL, 'vmon-reach')
    except ValueError:
        return False
    import os
    from vmon import core
    prefix = os.path.join(os.path.realpath(core.REPO), 'segno') + os.sep

    linecov = bool(os.environ.get('VERIF_LINECOV'))

    def on_start(code, offset):
        fn = code.co_filename
        if fn.startswith(prefix):
            State.reached.add('%s:%s' % (os.path.basename(fn)[:-3], code.co_qualname))
            if linecov:
                # optional (tools/linecov.py): which lines of the library do the workloads execute at all?
                mon.set_local_events(_TOOL, code, mon.events.LINE)
        return mon.DISABLE

    def on_line(code, line):
        State.lines.add('%s:%d' % (os.path.basename(code.co_filename)[:-3], line))
        return mon.DISABLE

    mon.register_callback(_TOOL, mon.events.PY_START, on_start)
    if linecov:
        mon.register_callback(_TOOL, mon.events.LINE, on_line)
    mon.set_events(_TOOL, mon.events.PY_START)
    return True


def stop_reach(rec):
    mon = getattr(sys, 'monitoring', None)
    if mon is None:
        return
    try:
        mon.set_events(_TOOL, 0)
        mon.free_tool_id(_TOOL)
    except ValueError:
        pass
    rec.extra['functions_reached'] = sorted(State.reached)


def dump_lines():
    """VERIF_LINECOV=1: appends the executed library lines of this process to work/linecov/<pid>.txt."""
    if os.environ.get('VERIF_LINECOV') and State.lines:
        from vmon import core
        d = os.path.join(core.WORK, 'linecov')
        os.makedirs(d, exist_ok=True)
        with open(os.path.join(d, '%d.txt' % os.getpid()), 'a') as f:
            f.write('\n'.join(sorted(State.lines)) + '\n')
