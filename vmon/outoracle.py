"""Oracles over serialised output (C09 raster/text, C10 vector, C11 per-type colours).
Output is parsed by the independent readers in refmodel/ and compared with the grid
predicted from the module matrix, scale, border and the requested colours."""
from refmodel import colors, qr, raster

TEXT_KINDS = ('eps', 'xpm', 'xbm', 'txt', 'tex', 'ans')


def default_border(size):
    return 2 if size < 21 else 4


def module_grid(matrix, border):
    """(size + 2b) square of 0/1 with the quiet zone."""
    n = len(matrix)
    side = n + 2 * border
    g = [[0] * side for _ in range(side)]
    for y in range(n):
        row = matrix[y]
        for x in range(n):
            g[y + border][x + border] = row[x]
    return g


def scaled(grid, s):
    if s == 1:
        return grid
    out = []
    for r in grid:
        line = []
        for v in r:
            line.extend([v] * s)
        for _ in range(s):
            out.append(line)
    return out


def same_color(px, want):
    """px: RGBA from a reader; want: RGBA (alpha possibly float) or None = transparent."""
    if want is None:
        return px[3] == 0
    if want[3] == 0:
        return px[3] == 0
    return tuple(px[:3]) == tuple(want[:3]) and abs(px[3] - want[3]) < 1


def compare_pixels(px, grid, dark, light, out, what, colour_of=None):
    """px rows of RGBA vs grid of module values (or of type codes with colour_of)."""
    h = len(grid)
    if len(px) != h or any(len(r) != len(grid[0]) for r in px):
        out.append(('raster-size', dict(what, rows=len(px), cols=len(px[0]) if px else 0, expected=h)))
        return
    bad = 0
    first = None
    for y in range(h):
        prow = px[y]
        grow = grid[y]
        for x in range(len(grow)):
            v = grow[x]
            want = colour_of(v) if colour_of else (dark if v else light)
            if not same_color(prow[x], want):
                bad += 1
                if first is None:
                    first = {'x': x, 'y': y, 'module_value': v, 'pixel': prow[x], 'expected': want}
    if bad:
        out.append(('pixel-colour', dict(what, wrong_pixels=bad, first=first)))


def check_raster(kind, data, matrix, kw):
    """kind in png, pbm, pam, ppm, xbm, xpm. Returns list of (kind, detail)."""
    out = []
    n = len(matrix)
    border = kw.get('border')
    b = default_border(n) if border is None else border
    s = int(kw.get('scale', 1))
    side = (n + 2 * b) * s
    what = {'kind': kind, 'size': n, 'scale': kw.get('scale', 1), 'border': border}
    try:
        if kind == 'png':
            img = raster.read_png(data)
        elif kind in ('pbm', 'ppm', 'pam'):
            img = raster.read_pnm(data)
        elif kind == 'xbm':
            img = raster.read_xbm(data)
        elif kind == 'xpm':
            img = raster.read_xpm(data)
        else:
            raise ValueError(kind)
    except raster.Bad as ex:
        out.append(('malformed', dict(what, error=str(ex))))
        return out, None
    if (img['w'], img['h']) != (side, side):
        out.append(('declared-size', dict(what, declared=(img['w'], img['h']), expected=side)))
        return out, img
    grid = scaled(module_grid(matrix, b), s)
    if kind in ('pbm', 'xbm'):
        dark, light = (0, 0, 0, 255), (255, 255, 255, 255)
    else:
        defaults = {'png': ('#000', '#fff'), 'pam': ('#000', '#fff'), 'ppm': ('#000', '#fff'), 'xpm': ('#000', '#fff')}[kind]
        dark = colors.parse(kw.get('dark', defaults[0]))
        light = colors.parse(kw.get('light', defaults[1]))
    compare_pixels(img['px'], grid, dark, light, out, what)
    if kind == 'png':
        dpi = kw.get('dpi')
        if dpi:
            want = int(int(dpi) // 0.0254)
            if img['phys'] != (want, want, 1):
                out.append(('png-phys', dict(what, phys=img['phys'], expected=want)))
        elif img['phys'] is not None:
            out.append(('png-phys', dict(what, phys=img['phys'], expected=None)))
    if kind == 'xbm' and img.get('name') != kw.get('name', 'img'):
        out.append(('name', dict(what, name=img.get('name'))))
    if kind == 'xpm' and img.get('name') != kw.get('name', 'img'):
        out.append(('name', dict(what, name=img.get('name'))))
    return out, img


def check_text(kind, text, matrix, kw):
    """kind in txt, ans, compact."""
    out = []
    n = len(matrix)
    border = kw.get('border')
    b = default_border(n) if border is None else border
    what = {'kind': kind, 'size': n, 'border': border}
    grid = module_grid(matrix, b)
    try:
        if kind == 'txt':
            got = raster.read_txt(text, str(kw.get('dark', '1')), str(kw.get('light', '0')))['grid']
        elif kind == 'ans':
            got = raster.read_ansi(text)['grid']
        else:
            got = raster.read_compact(text)['grid']
            if len(grid) % 2:
                if len(got) != len(grid) + 1 or got[-1] != [1] * len(grid):
                    out.append(('compact-fill-row', dict(what, rows=len(got), last=got[-1][:8] if got else None)))
                    return out
                got = got[:-1]
    except raster.Bad as ex:
        out.append(('malformed', dict(what, error=str(ex))))
        return out
    if got != grid:
        wrong = sum(1 for y in range(min(len(got), len(grid))) for x in range(min(len(got[y]), len(grid[y]))) if got[y][x] != grid[y][x])
        out.append(('cell-mismatch', dict(what, rows=len(got), cols=len(got[0]) if got else 0, expected=len(grid), wrong_cells=wrong)))
    return out


# ====================================================================== vector
from refmodel import vector  # noqa: E402


def close(a, b, rel=1e-9):
    return abs(a - b) <= rel * max(1.0, abs(a), abs(b))


def float_color(c):
    """RGBA 0..255 -> (r, g, b) floats 0..1 as the EPS/PDF writers have to emit them."""
    return tuple(v / 255.0 for v in c[:3])


def dark_cells(matrix, border):
    n = len(matrix)
    return {(y + border, x + border) for y in range(n) for x in range(n) if matrix[y][x]}


def compare_cells(cells, probs, want, side, out, what, translate=False):
    """cells: {(row, col): count}. want: set of (row, col). side: page side in modules."""
    if probs:
        out.append(('off-grid-stroke', dict(what, first=probs[:3], n=len(probs))))
        return
    got = set(cells)
    if translate and got and want:
        dr = min(r for r, _ in got) - min(r for r, _ in want)
        dc = min(c for _, c in got) - min(c for _, c in want)
        got = {(r - dr, c - dc) for r, c in got}
        cells = {(r - dr, c - dc): k for (r, c), k in cells.items()}
    multi = [rc for rc, k in cells.items() if k > 1]
    if multi:
        out.append(('module-painted-twice', dict(what, n=len(multi), first=sorted(multi)[:3])))
    outside = [rc for rc in got if not (0 <= rc[0] < side and 0 <= rc[1] < side)]
    if outside and not translate:
        out.append(('stroke-outside-page', dict(what, n=len(outside), first=sorted(outside)[:3])))
    missing = want - got
    extra = got - want
    if missing or extra:
        out.append(('covered-set', dict(what, missing=len(missing), extra=len(extra),
                                        first_missing=sorted(missing)[:3], first_extra=sorted(extra)[:3])))


def check_vector(kind, data, matrix, kw):
    """kind in svg, eps, pdf, tex; two-colour documents (per-type colours are C11's)."""
    out = []
    n = len(matrix)
    border = kw.get('border')
    b = default_border(n) if border is None else border
    scale = kw.get('scale', 1)
    side = n + 2 * b
    page = side * scale
    what = {'kind': kind, 'size': n, 'scale': scale, 'border': border}
    want = dark_cells(matrix, b)
    try:
        if kind == 'svg':
            return check_svg(data, matrix, kw, out, what, want, side, page)
        if kind == 'eps':
            doc = vector.read_eps(data)
            if not (doc['bbox'][0] == doc['bbox'][1] == 0 and close(doc['bbox'][2], page) and close(doc['bbox'][3], page)):
                out.append(('page-box', dict(what, box=doc['bbox'], expected=page)))
            s = doc['scale']
            segs = [(x1 * s, page - y * s, x2 * s) for (x1, y, x2) in doc['segs']]
            cells, probs = vector.cover(segs, s)
            compare_cells(cells, probs, want, side, out, what)
            if not close(s, scale):
                out.append(('scale-transform', dict(what, found=s)))
            check_float_color(doc['color'], spec_to_floats(kw.get('dark', '#000')), out, what, 'stroke-colour')
            light = kw.get('light')
            if light is not None:
                if doc['bg'] is None:
                    out.append(('background-missing', what))
                else:
                    check_float_color(doc['bg'], spec_to_floats(light), out, what, 'background-colour')
            elif doc['bg'] is not None:
                out.append(('background-unexpected', dict(what, bg=doc['bg'])))
        elif kind == 'pdf':
            doc = vector.read_pdf(data)
            for pr in doc['problems']:
                out.append(('pdf-' + pr[0], dict(what, detail=pr[1:])))
            mb = doc['media']
            if not (len(mb) == 4 and mb[0] == mb[1] == 0 and close(mb[2], page) and close(mb[3], page)):
                out.append(('page-box', dict(what, box=mb, expected=page)))
            lw = doc['lw']
            segs = [(x1, page - y, x2) for (x1, y, x2) in doc['segs']]
            cells, probs = vector.cover(segs, lw)
            compare_cells(cells, probs, want, side, out, what)
            if not close(lw, scale):
                out.append(('scale-transform', dict(what, found=lw)))
            check_float_color(doc['stroke'], spec_to_floats(kw.get('dark', '#000')), out, what, 'stroke-colour')
            light = kw.get('light')
            if light is not None:
                if doc['bg'] is None:
                    out.append(('background-missing', what))
                else:
                    col, ((x0, y0), (x1, y1)) = doc['bg']
                    check_float_color(col, spec_to_floats(light), out, what, 'background-colour')
                    if min(x0, x1) > 1e-9 or min(y0, y1) > 1e-9 or max(x0, x1) < page * (1 - 1e-9) or max(y0, y1) < page * (1 - 1e-9):
                        out.append(('background-does-not-fill-page', dict(what, rect=((x0, y0), (x1, y1)), page=page)))
            elif doc['bg'] is not None:
                out.append(('background-unexpected', dict(what, bg=doc['bg'][0])))
        elif kind == 'tex':
            doc = vector.read_tex(data)
            unit = kw.get('unit', 'pt')
            if doc['unit'] != unit:
                out.append(('tex-unit', dict(what, found=doc['unit'], expected=unit)))
            if not close(doc['lw'], scale):
                out.append(('scale-transform', dict(what, found=doc['lw'])))
            lw = doc['lw']
            # y grows upwards and is negative going down: flip, then compare modulo one translation
            segs = [(x1, -y + lw / 2, x2) for (x1, y, x2) in doc['segs']]
            cells, probs = vector.cover(segs, lw)
            compare_cells(cells, probs, want, side, out, what, translate=True)
            dark = kw.get('dark', 'black')
            exp = None if (not dark or dark == 'black') else dark
            if doc['color'] != exp:
                out.append(('stroke-colour', dict(what, found=doc['color'], expected=exp)))
            if doc['url'] != kw.get('url'):
                out.append(('tex-url', dict(what, found=doc['url'])))
    except vector.Bad as ex:
        out.append(('malformed', dict(what, error=str(ex))))
    return out


def spec_to_floats(spec):
    """EPS / PDF colour: (R, G, B) may mix ints 0..255 and floats 0.0..1.0 (documented for these two writers)."""
    if isinstance(spec, tuple) and any(isinstance(c, float) for c in spec[:3]):
        return tuple(c if isinstance(c, float) else c / 255.0 for c in spec[:3])
    return float_color(colors.parse(spec))


def check_float_color(found, want, out, what, tag):
    if found is None:
        out.append((tag, dict(what, found=None)))
        return
    if any(abs(a - b) > 1e-5 for a, b in zip(found, want)):
        out.append((tag, dict(what, found=found, expected=want)))


def svg_color_matches(path_color, opacity, want):
    """path_color: the stroke/fill attribute; want: RGBA (0..255 alpha, maybe float) ."""
    try:
        r, g, b, a = colors.web_to_rgba(path_color, opacity)
    except colors.BadColor:
        # a CSS name this oracle does not know: cannot be judged
        return None
    return (r, g, b) == tuple(want[:3]) and abs(a - want[3] / 255.0) <= 0.005


def check_svg(data, matrix, kw, out, what, want, side, page, colour_cells=None, expected=None):
    """Representation-agnostic check of an SVG document: the paints (background fill, stroked paths, in document
    order) are composed per cell of the (side x side) module grid and the top-most paint of every cell is compared
    with the expected colour of that cell. `expected(row, col)` -> RGBA or None; default: two-colour document
    from kw['dark'] / kw['light'] and the set `want` of dark cells."""
    doc = vector.read_svg(data)
    scale = kw.get('scale', 1)
    pw, ph = doc['page']
    if not (close(pw, page) and close(ph, page)):
        out.append(('page-box', dict(what, box=doc['page'], expected=page)))
    unit = kw.get('unit') or ''
    omitsize = kw.get('omitsize', False)
    has_wh = 'width' in doc['attrs']
    if omitsize and has_wh:
        out.append(('svg-size-not-omitted', what))
    if not omitsize and (not has_wh or doc.get('unit', '') != unit):
        out.append(('svg-unit', dict(what, found=doc.get('unit'), expected=unit)))
    if (omitsize or unit) and 'viewBox' not in doc:
        out.append(('svg-viewbox-missing', what))
    if kw.get('svgns', True) != bool(doc['ns']):
        out.append(('svg-namespace', dict(what, ns=doc['ns'])))
    if kw.get('title') is not None and doc['title'] != kw['title']:
        out.append(('svg-title', dict(what, found=doc['title'], expected=kw['title'])))
    if kw.get('desc') is not None and doc['desc'] != kw['desc']:
        out.append(('svg-desc', dict(what, found=doc['desc'], expected=kw['desc'])))
    for attr, key, dflt in (('id', 'svgid', None), ('class', 'svgclass', 'segno')):
        exp = kw.get(key, dflt)
        if (doc['attrs'].get(attr) or None) != (exp or None):
            out.append(('svg-attribute', dict(what, attr=attr, found=doc['attrs'].get(attr), expected=exp)))
    if expected is None:
        dark = kw.get('dark', '#000')
        light = kw.get('light')
        dark_c = colors.parse(dark) if dark is not None else None
        light_c = colors.parse(light) if light is not None else None

        def expected(r, c):
            return dark_c if (r, c) in want else light_c
    lineclass = kw.get('lineclass', 'qrline')
    top = {}          # cell -> ('fill' | 'stroke', colour attr, opacity attr)
    strokes_on = {}   # cell -> number of stroked paths covering it
    for p in doc['paths']:
        if not close(p['scale'], scale):
            out.append(('scale-transform', dict(what, found=p['scale'])))
            return out
        if p['stroke_width'] not in (None, '1'):
            out.append(('svg-stroke-width', dict(what, found=p['stroke_width'])))
        if p['fill'] is not None:
            pts = p['pts']
            xs = [x for x, _ in pts]
            ys = [y for _, y in pts]
            if not p['closed'] or len(pts) < 4 or p['segs'] and False:
                out.append(('fill-path-not-closed', dict(what, pts=pts[:6])))
                continue
            x0, x1, y0, y1 = min(xs), max(xs), min(ys), max(ys)
            full = x0 <= 1e-9 and y0 <= 1e-9 and (close(x1 * p['scale'], page) or x1 * p['scale'] > page) \
                and (close(y1 * p['scale'], page) or y1 * p['scale'] > page)
            if not full:
                out.append(('background-does-not-fill-page', dict(what, pts=pts[:6], scale=p['scale'], page=page)))
            for r in range(side):
                for c in range(side):
                    if x0 - 1e-9 <= c and c + 1 <= x1 + 1e-9 and y0 - 1e-9 <= r and r + 1 <= y1 + 1e-9:
                        top[(r, c)] = ('fill', p['fill'], p['fill_opacity'])
            continue
        if (p['cls'] or None) != (lineclass or None):
            out.append(('svg-attribute', dict(what, attr='path class', found=p['cls'], expected=lineclass)))
        segs = [(x1 * p['scale'], y * p['scale'], x2 * p['scale']) for (x1, y, x2) in p['segs']]
        cells, probs = vector.cover(segs, p['scale'])
        if probs:
            out.append(('off-grid-stroke', dict(what, first=probs[:3], n=len(probs))))
            continue
        invisible = p['stroke'] is None
        if not invisible:
            try:
                invisible = colors.web_to_rgba(p['stroke'], p['stroke_opacity'])[3] == 0
            except colors.BadColor:
                invisible = False
        for rc, k in cells.items():
            if invisible:
                continue   # a path without stroke / with zero opacity paints nothing
            strokes_on[rc] = strokes_on.get(rc, 0) + k
            top[rc] = ('stroke', p['stroke'], p['stroke_opacity'])
    outside = [rc for rc in strokes_on if not (0 <= rc[0] < side and 0 <= rc[1] < side)]
    if outside:
        out.append(('stroke-outside-page', dict(what, n=len(outside), first=sorted(outside)[:3])))
    twice = [rc for rc, k in strokes_on.items() if k > 1]
    if twice:
        out.append(('module-painted-twice', dict(what, n=len(twice), first=sorted(twice)[:3])))
    wrong = []
    unknown_names = set()
    for r in range(side):
        for c in range(side):
            exp = expected(r, c)
            t = top.get((r, c))
            if exp is None or exp[3] == 0:
                if t is not None and t[0] == 'stroke' and not (t[2] is not None and float(t[2]) == 0.0):
                    wrong.append((r, c, t, None))
                continue
            if exp[3] / 255.0 <= 0.005 and (t is None or t[0] == 'fill'):
                # opacity is written with two decimals: an alpha below 0.5 % may legitimately come out as 0, i.e. as
                # no stroke at all (the background shows). A stroke that does cover the cell is this cell's own
                # paint and is compared as usual.
                continue
            if t is None:
                wrong.append((r, c, None, exp))
                continue
            ok = svg_color_matches(t[1], t[2], exp)
            if ok is None:
                unknown_names.add(t[1])
            elif not ok:
                wrong.append((r, c, t, exp))
    if wrong:
        pairs = sorted({(t, tuple(e) if e is not None else None) for _, _, t, e in wrong}, key=repr)
        out.append(('cell-colour', dict(what, n_cells=len(wrong), first=[(r, c, t, e) for r, c, t, e in wrong[:4]],
                                        cells=[(r, c) for r, c, _, _ in wrong[:12]],
                                        distinct_found_expected=pairs[:8], n_distinct_found_expected=len(pairs))))
    if unknown_names:
        out.append(('colour-name-unknown-to-oracle', dict(what, names=sorted(unknown_names))))
    return out


# ================================================================ module types
TYPE_LIGHT = {'finder': 6, 'separator': 8, 'alignment': 10, 'timing': 12, 'format': 14, 'version': 16, 'data': 4}
TYPE_DARKMODULE = 512
TYPE_QUIET = 18
_CLS_NAME = {qr.FINDER: 'finder', qr.SEP: 'separator', qr.TIMING: 'timing', qr.ALIGN: 'alignment', qr.FORMAT: 'format',
             qr.VERSION: 'version', qr.DATA: 'data'}

# documented keyword -> module type codes (docs/colorful-qrcodes.rst)
KEYWORD_TYPES = {
    'finder_dark': 6 << 8, 'finder_light': 6, 'data_dark': 4 << 8, 'data_light': 4, 'version_dark': 16 << 8,
    'version_light': 16, 'format_dark': 14 << 8, 'format_light': 14, 'alignment_dark': 10 << 8, 'alignment_light': 10,
    'timing_dark': 12 << 8, 'timing_light': 12, 'separator': 8, 'dark_module': 512, 'quiet_zone': 18,
}


def type_grid(matrix, border):
    """Module type code of every cell incl. the quiet zone, from the independent function map."""
    n = len(matrix)
    version = qr.version_of_size(n)
    cls, _ = qr.function_map(version)
    side = n + 2 * border
    g = [[TYPE_QUIET] * side for _ in range(side)]
    for y in range(n):
        for x in range(n):
            k = cls[y][x]
            if k == qr.DARKMOD:
                t = TYPE_DARKMODULE
            else:
                t = TYPE_LIGHT[_CLS_NAME[k]]
                if k != qr.SEP and matrix[y][x]:
                    t <<= 8
            g[y + border][x + border] = t
    return g


def colour_map(kw, default_dark, default_light):
    """type code -> requested colour spec (documented fallback: dark / light)."""
    dark = kw.get('dark', default_dark)
    light = kw.get('light', default_light)
    m = {}
    for key, t in KEYWORD_TYPES.items():
        if key in kw:
            m[t] = kw[key]
        else:
            m[t] = dark if (t >> 8) else light
    return m
