"""Classifiers of the *open* known findings (known_findings.json). Each is a
narrow predicate over one deviation record {property, kind, detail, case}."""

CLASSIFIERS = {}


def classifier(fid):
    def deco(fn):
        CLASSIFIERS[fid] = fn
        return fn
    return deco
