"""Classifiers of the *open* known findings (known_findings.json). Each is a
narrow predicate over one deviation record {property, kind, detail, case}."""

CLASSIFIERS = {}


def classifier(fid):
    def deco(fn):
        CLASSIFIERS[fid] = fn
        return fn
    return deco


@classifier('n3-overlap-skipped')
def n3_overlap_skipped(d):
    """C06: the chosen mask is exactly what the pinned non-overlapping N3 scan
    selects, and the two score vectors differ only by whole N3 units (40)."""
    if d['kind'] != 'auto-mask':
        return False
    det = d['detail']
    alt = det.get('nonoverlap_scores')
    iso = det.get('scores')
    if not alt or not iso or len(alt) != 8 or len(iso) != 8:
        return False
    if det['got'] != det.get('nonoverlap_best') or det['got'] == det['expected']:
        return False
    diffs = [a - b for a, b in zip(iso, alt)]
    return all(x >= 0 and x % 40 == 0 for x in diffs) and any(diffs)


@classifier('extra-zero-codeword')
def extra_zero_codeword(d):
    """C13: QR / M2 / M4 symbol whose stream is already codeword-aligned after
    the terminator: exactly one 0x00 codeword precedes an otherwise correct
    EC/11 alternation; nothing else in the tail is wrong."""
    if d['kind'] != 'tail':
        return False
    det = d['detail']
    if det['what'] != ['pad-codewords'] or det['version'] in ('M1', 'M3'):
        return False
    if (det['end_of_segments'] + det['terminator_bits']) % 8 != 0 or det['align_pad_bits'] != 0:
        return False
    pads = det['pad_codewords']
    return bool(pads) and pads[0] == 0 and det['pads_tail_ok'] is True


def _sa_case(d):
    case = d['case']
    det = d['detail']
    content = case['content']
    text = content if isinstance(content, (bytes, bytearray)) else str(content)
    return case, det, content, text


# sa-parity-ignores-encoding: repaired in the repository (b8cfeda); a fixed entry suppresses nothing, the classifier is gone.


@classifier('sa-char-chunks-per-chunk-encoding')
def sa_char_chunks(d):
    """C08: text in byte mode whose bytes are not one per character (multi-byte effective encoding): the content is cut
    by characters and every chunk chooses its own encoding. Symptoms limited to overflow / payload / parity."""
    if d['kind'] == 'admissible-sequence-refused':
        # the same mechanism seen as a refusal: the mode comes from the whole text, a chunk converted on its own (other
        # encoding than the whole) is not representable in that mode - e.g. '語①': UTF-8 bytes of the whole look like
        # kanji pairs, the chunk '①' alone does not
        return d['detail'].get('type') == 'ValueError' and d['detail'].get('per_chunk_mode_conflict') is True \
            and isinstance(d['case'].get('content'), str)
    if d['kind'] != 'sequence':
        return False
    case, det, content, text = _sa_case(d)
    if isinstance(content, (bytes, bytearray, int)) or det.get('mode') != 'byte':
        return False
    if not set(det['symptoms']) <= {'chunk-overflow', 'payload-mismatch', 'parity-wrong'}:
        return False
    # every symbol must carry exactly what the pinned policy yields for its chunk (the text cut by characters, each
    # chunk encoded on its own): other bytes in the symbols are another defect
    if det.get('per_chunk_policy') is not True:
        return False
    return det.get('expected_len') is not None and det['expected_len'] != len(text)


@classifier('sa-version-count-underestimate')
def sa_version_count(d):
    """C08: `version` given: the symbol count estimate ignores the per-symbol mode / count indicator, so equally divided
    chunks do not fit. Only symptom: overflow of exactly those chunks whose recomputed cost + 20 header bits exceeds the
    capacity of (version, requested level); payload one count unit per character."""
    from vmon import oracle
    if d['kind'] != 'sequence':
        return False
    case, det, content, text = _sa_case(d)
    kw = case['kw']
    if det['symptoms'] != ['chunk-overflow'] or kw.get('version') is None or kw.get('symbol_count') is not None:
        # (with a symbol count as well the version is re-fitted to the longest chunk: that path never overflows)
        return False
    if det.get('per_chunk_policy') is False:      # None: bytes content (cut by bytes, nothing to re-encode)
        return False
    mode = det.get('mode')
    if mode is None:
        return False
    if mode == 'byte' and not isinstance(content, (bytes, bytearray)) and det.get('expected_len') != len(text):
        return False
    a = oracle.normalize_args(kw)
    version, level = a['version_name'], a['error_name'] or 'L'
    n = det['n']
    # the number of symbols must be exactly what the *pinned* estimator yields (total bit length incl. one mode / count
    # indicator, 20 header bits per symbol, numeric remainder 0 charged with 7 bits): a different count is another defect
    if n != _pinned_symbol_count(version, level, mode, len(text)):
        return False
    k, m = divmod(len(text), n)
    lens = [(i + 1) * k + min(i + 1, m) - (i * k + min(i, m)) for i in range(n)]
    cap = oracle.capacity(version, level)
    per = 2 if mode in ('kanji', 'hanzi') else 1
    over = []
    for i, ln in enumerate(lens):
        c = oracle.seg_cost(version, mode, ln * per)
        if c is None or c + 20 > cap:
            over.append(i)
    return bool(over) and over == det.get('overflow_symbols')


@classifier('verbose-8-size-9')
def verbose_8_size_9(d):
    """C11: exactly the module (8, size-9) of a QR symbol (a data module) is reported / coloured as a format
    module of the same darkness; nothing else is wrong in that execution."""
    det = d['detail']
    size = det.get('size')
    if not isinstance(size, int) or size < 21:
        return False
    if d['kind'] == 'verbose-type':
        cells = det['cells']
        if det['n_modules'] != 1 or not cells:
            return False
        return all((r, c) == (8, size - 9) and got in (14, 14 << 8) and want in (4, 4 << 8)
                   and bool(got >> 8) == bool(want >> 8) for r, c, got, want in cells)
    if d['kind'] == 'colourful-pixel-colour':
        mods = det.get('modules') or []
        if det.get('n_modules') != 1 or len(mods) != 1:
            return False
        r, c, t, px = mods[0]
        if (r, c) != (8, size - 9) or t not in (4, 4 << 8):
            return False
        fmt = det['cmap_format'][str(14 << 8 if t >> 8 else 14)]
        if fmt is None or fmt[3] == 0:
            return px[3] == 0
        return tuple(px[:3]) == tuple(fmt[:3]) and abs(px[3] - fmt[3]) < 1
    if d['kind'] == 'colourful-cell-colour':
        if det.get('n_cells') != 1:
            return False
        r, c, top, exp = det['first'][0]
        b = det['border_used']
        if (r - b, c - b) != (8, size - 9):
            return False
        # the expected colour is the data colour; what was painted must be the format colour of the same darkness
        from vmon import outoracle
        for dark in (False, True):
            data_c = det['cmap_data'][str(4 << 8 if dark else 4)]
            fmt_c = det['cmap_format'][str(14 << 8 if dark else 14)]
            invisible = lambda c: c is None or c[3] == 0   # noqa: E731  (a colour with alpha 0 paints nothing, like None)
            same_exp = (invisible(exp) and invisible(data_c)) or (exp is not None and data_c is not None and list(exp) == list(data_c))
            if not same_exp:
                continue
            if fmt_c is None or fmt_c[3] == 0:
                if top is None:
                    return True
                continue
            if top is not None and outoracle.svg_color_matches(top[1], top[2], fmt_c):
                return True
        return False
    return False


def _pinned_symbol_count(version, level, mode, char_count):
    """Emulation of the pinned number_of_symbols_by_version (known finding sa-version-count-underestimate); used only
    to keep the classifier narrow, never for a verdict."""
    import math
    from refmodel import qr
    from vmon import oracle
    cap = oracle.capacity(version, level)
    if mode in ('kanji', 'hanzi'):
        bits = char_count * 13
    elif mode == 'numeric':
        num, rem = divmod(char_count, 3)
        bits = num * 10 + (4 if rem == 1 else 7)
    elif mode == 'alphanumeric':
        num, rem = divmod(char_count, 2)
        bits = num * 11 + (6 if rem else 0)
    else:
        bits = char_count * 8
    total = 4 + qr.cci_len(version, mode) + 20 + bits
    cnt = int(math.ceil(total / cap))
    total += 20 * (cnt - 1)
    return int(math.ceil(total / cap))


@classifier('tuple-alpha-1-black-white-opaque')
def tuple_alpha_1_black_white(d):
    """C10 (SVG): a colour given as the *tuple* (0, 0, 0, 1) or (255, 255, 255, 1) - integer alpha 1 of 255 - is taken for
    opaque black / white by _color_is_black / _color_is_white (1 == 1.0); every wrong cell is such a cell, stroked '#000' /
    '#fff' without opacity, and that very tuple is among the colours of the call."""
    if d['kind'] != 'cell-colour':
        return False
    det, kw = d['detail'], d['case'].get('kw', {})
    if det.get('kind') != 'svg':
        return False
    pairs = det.get('distinct_found_expected')
    if not pairs or det.get('n_distinct_found_expected') != len(pairs):
        return False
    given = [v for v in kw.values() if isinstance(v, (tuple, list)) and len(v) == 4 and not isinstance(v[3], float) and v[3] == 1]
    given = {tuple(v) for v in given}
    for found, exp in pairs:
        if exp is None or tuple(exp) not in given:
            return False
        exp = tuple(exp)
        if exp[:3] == (0, 0, 0):
            want = '#000'
        elif exp[:3] == (255, 255, 255):
            want = '#fff'
        else:
            return False
        if found is None or tuple(found) != ('stroke', want, None):
            return False
    return True
