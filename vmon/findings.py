"""Classifiers of the *open* known findings (known_findings.json). Each is a
narrow predicate over one deviation record {property, kind, detail, case}."""

CLASSIFIERS = {}


def classifier(fid):
    def deco(fn):
        CLASSIFIERS[fid] = fn
        return fn
    return deco


@classifier('n3-overlap-skipped')
def n3_overlap_skipped(d):
    """C06: the chosen mask is exactly what the pinned non-overlapping N3 scan
    selects, and the two score vectors differ only by whole N3 units (40)."""
    if d['kind'] != 'auto-mask':
        return False
    det = d['detail']
    alt = det.get('nonoverlap_scores')
    iso = det.get('scores')
    if not alt or not iso or len(alt) != 8 or len(iso) != 8:
        return False
    if det['got'] != det.get('nonoverlap_best') or det['got'] == det['expected']:
        return False
    diffs = [a - b for a, b in zip(iso, alt)]
    return all(x >= 0 and x % 40 == 0 for x in diffs) and any(diffs)


@classifier('extra-zero-codeword')
def extra_zero_codeword(d):
    """C13: QR / M2 / M4 symbol whose stream is already codeword-aligned after
    the terminator: exactly one 0x00 codeword precedes an otherwise correct
    EC/11 alternation; nothing else in the tail is wrong."""
    if d['kind'] != 'tail':
        return False
    det = d['detail']
    if det['what'] != ['pad-codewords'] or det['version'] in ('M1', 'M3'):
        return False
    if (det['end_of_segments'] + det['terminator_bits']) % 8 != 0 or det['align_pad_bits'] != 0:
        return False
    pads = det['pad_codewords']
    return bool(pads) and pads[0] == 0 and det['pads_tail_ok'] is True


def _sa_case(d):
    case = d['case']
    det = d['detail']
    content = case['content']
    text = content if isinstance(content, (bytes, bytearray)) else str(content)
    return case, det, content, text


@classifier('sa-parity-ignores-encoding')
def sa_parity_ignores_encoding(d):
    """C08: an explicit single-byte `encoding` is given; everything reassembles, only the parity byte is the XOR of the
    message under the default text->bytes policy instead of under the requested encoding."""
    if d['kind'] != 'sequence':
        return False
    case, det, content, text = _sa_case(d)
    if det['symptoms'] != ['parity-wrong'] or not case['kw'].get('encoding') or isinstance(content, (bytes, bytearray)):
        return False
    return det.get('parity') is not None and det.get('parity') == det.get('parity_default_policy') \
        and det.get('parity') != det.get('parity_expected')


@classifier('sa-char-chunks-per-chunk-encoding')
def sa_char_chunks(d):
    """C08: text in byte mode whose bytes are not one per character (multi-byte effective encoding): the content is cut
    by characters and every chunk chooses its own encoding. Symptoms limited to overflow / payload / parity."""
    if d['kind'] != 'sequence':
        return False
    case, det, content, text = _sa_case(d)
    if isinstance(content, (bytes, bytearray, int)) or det.get('mode') != 'byte':
        return False
    if not set(det['symptoms']) <= {'chunk-overflow', 'payload-mismatch', 'parity-wrong'}:
        return False
    return det.get('expected_len') is not None and det['expected_len'] != len(text)


@classifier('sa-version-count-underestimate')
def sa_version_count(d):
    """C08: `version` given: the symbol count estimate ignores the per-symbol mode / count indicator, so equally divided
    chunks do not fit. Only symptom: overflow of exactly those chunks whose recomputed cost + 20 header bits exceeds the
    capacity of (version, requested level); payload one count unit per character."""
    from vmon import oracle
    if d['kind'] != 'sequence':
        return False
    case, det, content, text = _sa_case(d)
    kw = case['kw']
    if det['symptoms'] != ['chunk-overflow'] or kw.get('version') is None:
        return False
    mode = det.get('mode')
    if mode is None:
        return False
    if mode == 'byte' and not isinstance(content, (bytes, bytearray)) and det.get('expected_len') != len(text):
        return False
    a = oracle.normalize_args(kw)
    version, level = a['version_name'], a['error_name'] or 'L'
    n = det['n']
    k, m = divmod(len(text), n)
    lens = [(i + 1) * k + min(i + 1, m) - (i * k + min(i, m)) for i in range(n)]
    cap = oracle.capacity(version, level)
    per = 2 if mode in ('kanji', 'hanzi') else 1
    over = []
    for i, ln in enumerate(lens):
        c = oracle.seg_cost(version, mode, ln * per)
        if c is None or c + 20 > cap:
            over.append(i)
    return bool(over) and over == det.get('overflow_symbols')
