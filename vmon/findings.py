"""Classifiers of the *open* known findings (known_findings.json). Each is a
narrow predicate over one deviation record {property, kind, detail, case}."""

CLASSIFIERS = {}


def classifier(fid):
    def deco(fn):
        CLASSIFIERS[fid] = fn
        return fn
    return deco


@classifier('n3-overlap-skipped')
def n3_overlap_skipped(d):
    """C06: the chosen mask is exactly what the pinned non-overlapping N3 scan
    selects, and the two score vectors differ only by whole N3 units (40)."""
    if d['kind'] != 'auto-mask':
        return False
    det = d['detail']
    alt = det.get('nonoverlap_scores')
    iso = det.get('scores')
    if not alt or not iso or len(alt) != 8 or len(iso) != 8:
        return False
    if det['got'] != det.get('nonoverlap_best') or det['got'] == det['expected']:
        return False
    diffs = [a - b for a, b in zip(iso, alt)]
    return all(x >= 0 and x % 40 == 0 for x in diffs) and any(diffs)


@classifier('extra-zero-codeword')
def extra_zero_codeword(d):
    """C13: QR / M2 / M4 symbol whose stream is already codeword-aligned after
    the terminator: exactly one 0x00 codeword precedes an otherwise correct
    EC/11 alternation; nothing else in the tail is wrong."""
    if d['kind'] != 'tail':
        return False
    det = d['detail']
    if det['what'] != ['pad-codewords'] or det['version'] in ('M1', 'M3'):
        return False
    if (det['end_of_segments'] + det['terminator_bits']) % 8 != 0 or det['align_pad_bits'] != 0:
        return False
    pads = det['pad_codewords']
    return bool(pads) and pads[0] == 0 and det['pads_tail_ok'] is True
