import sys

from vmon import core


def main(argv):
    if len(argv) >= 2 and argv[0] == 'check':
        tier = None
        if '--tier' in argv:
            tier = argv[argv.index('--tier') + 1]
        return core.check_main(argv[1].upper(), tier)
    if len(argv) >= 4 and argv[0] == 'worker':
        core.worker_main(argv[1], argv[2], argv[3], argv[4:])
        return 0
    if len(argv) >= 2 and argv[0] == 'replay':
        return core.replay_main(argv[1])
    print('usage: python -m vmon check <Cxx> [--tier quick|thorough] | replay <file>')
    return 64


if __name__ == '__main__':
    sys.exit(main(sys.argv[1:]))
