"""Seeded, class-stratified workload generators (DESIGN.md section 5)."""
import random

from refmodel import qr
from vmon import oracle

ALNUM = qr.ALNUM
KANA = 'アイウエオカキクケコサシスセソタチツテト点茗荷漢字日本語東京都'
HANZI = '汉字中文北京上海广州深圳的一是在不了有和人这'
CYR = 'Привет мир Ωμέγα'
EMOJI = '☃★♥Ünï©ödé€'
LATIN = 'Märchen Füße àéîõü ÿ ¡¿ §°±'


def rnd_len(rng, maxlen=60):
    r = rng.random()
    if r < 0.25:
        return rng.randint(0, 3)
    if r < 0.6:
        return rng.randint(1, 20)
    if r < 0.9:
        return rng.randint(1, maxlen)
    return rng.randint(maxlen, maxlen * 6)


def digits(rng, n):
    return ''.join(rng.choice('0123456789') for _ in range(n))


def alnum(rng, n):
    return ''.join(rng.choice(ALNUM) for _ in range(n))


def ascii_text(rng, n):
    return ''.join(chr(rng.randint(0x20, 0x7e)) for _ in range(n))


def latin1_text(rng, n):
    return ''.join(chr(rng.choice([rng.randint(0x20, 0x7e), rng.randint(0xa0, 0xff)])) for _ in range(n))


def from_alphabet(rng, n, alphabet):
    return ''.join(rng.choice(alphabet) for _ in range(n))


def sjis_pairs(rng, n):
    """n valid double-byte Shift JIS characters as bytes (by code range, not by
    the assigned repertoire - kanji mode is defined on the ranges)."""
    out = bytearray()
    for _ in range(n):
        if rng.random() < 0.7:
            hi = rng.randint(0x81, 0x9f)
        else:
            hi = rng.randint(0xe0, 0xeb)
        lo = rng.choice([rng.randint(0x40, 0x7e), rng.randint(0x80, 0xfc)])
        if hi == 0xeb and lo > 0xbf:
            lo = 0xbf
        out += bytes((hi, lo))
    return bytes(out)


def lead_trail(rng, n):
    """Shift JIS lead byte + arbitrary trail byte (00-FF), the class that
    separates range checks from validity checks."""
    out = bytearray()
    for _ in range(n):
        hi = rng.choice([rng.randint(0x81, 0x9f), rng.randint(0xe0, 0xeb)])
        lo = rng.choice([0x00, 0x10, 0x3f, 0x40, 0x7e, 0x7f, 0x80, 0xfc, 0xfd, 0xff, rng.randint(0, 255)])
        out += bytes((hi, lo))
    return bytes(out)


def raw_bytes(rng, n):
    r = rng.random()
    if r < 0.15:
        return bytes(n)
    if r < 0.3:
        return b'\xff' * n
    return bytes(rng.randint(0, 255) for _ in range(n))


def rnd_int(rng):
    r = rng.random()
    if r < 0.2:
        return rng.choice([0, 1, 9, 10, 99, 100, 999, 1000, 10 ** 17, 10 ** 40])
    if r < 0.35:
        return -rng.randint(0, 10 ** rng.randint(1, 12))
    return rng.randint(0, 10 ** rng.randint(1, 30))


# characters that exist both in ISO-8859-1 and in JIS X 0208: the order of the text -> bytes policy decides
LATIN1_JIS = '°±§¶×÷¢£¥¨¬´'

# characters Microsoft's cp932 can encode but Shift JIS (JIS X 0208) cannot: they must end up as UTF-8
CP932_ONLY = '～－∥①②③㈱髙№℡'

CLASSES = ['digits', 'alnum', 'ascii', 'latin1', 'kana', 'utf8', 'cyr', 'sjis_bytes', 'lead_trail',
           'hanzi', 'bytes', 'int', 'empty', 'latin1_jis', 'cp932_only', 'upper', 'nfd', 'unicode_digits', 'jis_lossy']


def content_of(rng, cls, n=None):
    if n is None:
        n = rnd_len(rng)
    if cls == 'digits':
        return digits(rng, max(n, 1))
    if cls == 'alnum':
        return alnum(rng, max(n, 1))
    if cls == 'ascii':
        return ascii_text(rng, n)
    if cls == 'latin1':
        return latin1_text(rng, n)
    if cls == 'latin1_jis':
        return ''.join(rng.choice(LATIN1_JIS) if rng.random() < 0.3 else chr(rng.randint(0x20, 0x7e)) for _ in range(max(n, 1)))
    if cls == 'jis_lossy':
        # kana / kanji text with U+00A5 or U+203E: Shift JIS *can* represent it (as 0x5C / 0x7E - not a round trip, but the
        # property asks for "the first of ISO-8859-1, Shift JIS, UTF-8 that can represent it")
        return ''.join(rng.choice('¥‾') if rng.random() < 0.25 else rng.choice(KANA + '点茗荷') for _ in range(max(n // 2, 2)))
    if cls == 'nfd':
        # text whose NFC form would be Latin-1 but which, as given, is not: must not be normalised behind the user's back
        return ''.join(rng.choice(['e\u0301', 'A\u030a', 'u\u0308', '\u212b', '\u212a', 'n\u0303', 'Cafe\u0301', 'o\u0302']) if rng.random() < 0.5
                       else rng.choice('abcXYZ 12') for _ in range(max(n // 2, 1)))
    if cls == 'unicode_digits':
        # characters for which str.isdigit() / isdecimal() hold without being ASCII digits: text, not numbers
        return ''.join(rng.choice('٠١٢٣٤٥٦٧٨٩०१२३４５６７８９²³¹') for _ in range(max(n, 1)))
    if cls == 'upper':
        return ''.join(rng.choice('ABCDEFGHIJKLMNOPQRSTUVWXYZ0123456789') for _ in range(max(n, 1)))
    if cls == 'cp932_only':
        return ''.join(rng.choice(CP932_ONLY) if rng.random() < 0.4 else rng.choice(KANA) for _ in range(max(n // 2, 1)))
    if cls == 'kana':
        return from_alphabet(rng, max(n // 2, 1), KANA)
    if cls == 'utf8':
        return from_alphabet(rng, max(n // 2, 1), EMOJI + KANA + 'abc')
    if cls == 'cyr':
        return from_alphabet(rng, max(n // 2, 1), CYR)
    if cls == 'sjis_bytes':
        return sjis_pairs(rng, max(n // 2, 1))
    if cls == 'lead_trail':
        return lead_trail(rng, max(n // 2, 1))
    if cls == 'hanzi':
        return from_alphabet(rng, max(n // 2, 1), HANZI)
    if cls == 'bytes':
        return raw_bytes(rng, n)
    if cls == 'int':
        return rnd_int(rng)
    if cls == 'empty':
        return rng.choice(['', b''])
    raise ValueError(cls)


def rnd_content(rng):
    cls = rng.choice(CLASSES)
    return cls, content_of(rng, cls)


VERSION_SPELLINGS = lambda v: [v, str(v)] if isinstance(v, int) else [v, v.lower()]  # noqa: E731


def rnd_options(rng, heavy=False):
    """A random option vector over error/version/mode/mask/encoding/eci/micro/boost."""
    kw = {}
    if rng.random() < 0.5:
        kw['error'] = rng.choice(['L', 'M', 'Q', 'H', 'l', 'm', 'q', 'h', None])
    if rng.random() < 0.35:
        v = rng.choice(oracle.ALL_VERSIONS if heavy else oracle.MICRO + list(range(1, 12)) + [20, 27, 40])
        kw['version'] = rng.choice(VERSION_SPELLINGS(v))
    if rng.random() < 0.25:
        kw['mode'] = rng.choice(oracle.MODES + ['Byte', 'NUMERIC', None])
    if rng.random() < 0.4:
        kw['mask'] = rng.randint(0, 7)
    if rng.random() < 0.25:
        kw['encoding'] = rng.choice(['utf-8', 'iso-8859-1', 'latin1', 'shift_jis', 'UTF-8', 'iso-8859-15',
                                     'cp1252', 'utf-16-be', 'ascii', 'cp437', 'gbk', 'euc_kr', 'big5', 'utf-16', 'utf-8-sig', 'utf-32',
                                     'iso2022_jp', 'hz', None,
                                     # aliases the codec registry resolves (the ECI number follows the codec, not the spelling)
                                     'latin-1', 'ISO8859_1', 'L1', 'sjis', 'Shift_JIS', 'UTF8', 'u8', 'cp932', 'ms932',
                                     'iso-8859-2', 'ISO_8859-7', 'windows-1251', 'us-ascii', '646', 'UTF_16_BE', 'euckr', 'gb2312',
                                     'ISO-8859-1', 'Iso-8859-1', 'LATIN1', 'Latin-1', 'ISO-8859-15', 'Shift-JIS', 'CP1252',
                                     # codecs Python knows and the ECI table does not (with eci=True: refused, there is no designator)
                                     'koi8-r', 'cp850', 'mac-roman', 'utf-16-le', 'tis-620', 'euc-jp'])
    if rng.random() < 0.25:
        kw['eci'] = rng.choice([True, False])
    if rng.random() < 0.3:
        kw['micro'] = rng.choice([True, False, None])
    if rng.random() < 0.3:
        kw['boost_error'] = rng.choice([True, False])
    return kw


def rnd_parts(rng):
    n = rng.randint(2, 4)
    parts = []
    for _ in range(n):
        cls = rng.choice(['digits', 'alnum', 'ascii', 'latin1', 'kana', 'sjis_bytes', 'bytes', 'int', 'utf8'])
        c = content_of(rng, cls, rng.randint(1, 12))
        r = rng.random()
        if r < 0.6:
            parts.append(c)
        elif r < 0.8:
            parts.append((c, None))
        elif r < 0.85 and isinstance(c, str) and c.isdigit():
            parts.append((c, rng.choice([1, 2, 4])))   # mode *constants* (ISO mode indicators) are what the tuple form takes
        else:
            # (content, mode, encoding) tuples: only mode None - per-part mode *names* are not part of the
            # documented interface (prepare_data expects internal constants there)
            parts.append((c, None, rng.choice(['utf-8', None, 'latin1', 'cp1252'])))
    if rng.random() < 0.12:
        # a part that occurs twice, the second time next to a part of its own mode (they are merged): [x, y, x, z]
        cls_a, cls_b = rng.sample(['digits', 'alnum', 'ascii'], 2)
        x = content_of(rng, cls_a, rng.randint(1, 6))
        parts = [x, content_of(rng, cls_b, rng.randint(1, 6)), x, content_of(rng, cls_a, rng.randint(1, 6))]
        if rng.random() < 0.3:
            parts.append(x)
        return parts
    # degenerate-but-legal parts: an empty string / bytes part, the integer 0, a one-part list
    r = rng.random()
    if r < 0.12:
        parts.insert(rng.randint(0, len(parts)), rng.choice(['', b'', 0, 0, ('', None), (0, None)]))
    elif r < 0.18:
        parts = [parts[0], rng.choice(['', b'', 0])] if rng.random() < 0.5 else [rng.choice(['', 0]), parts[0]]
    elif r < 0.22:
        parts = parts[:1]
    elif r < 0.25:
        # an empty part with an explicitly requested numeric / alphanumeric mode (the library refuses it; if it did not,
        # the empty numeric segment of a Micro QR symbol would read as the terminator)
        parts.insert(rng.randint(0, len(parts) - 1), ('', rng.choice([1, 2])))
    return parts


# ---------------------------------------------------------- capacity boundaries
def content_for_bits(mode, nchars):
    """A content of `nchars` characters (bytes for byte mode, pairs for kanji)
    that is auto-detected as `mode`."""
    if mode == 'numeric':
        return ('1234567890' * (nchars // 10 + 1))[:nchars]
    if mode == 'alphanumeric':
        return ('AB C$%*+-./:XYZ' * (nchars // 15 + 1))[:nchars]
    if mode == 'byte':
        return ('abcdefghij' * (nchars // 10 + 1))[:nchars]
    if mode == 'kanji':
        return '点茗荷漢字'[0:1] * nchars
    if mode == 'hanzi':
        return '汉' * nchars
    raise ValueError(mode)


def max_chars(version, level, mode):
    """Largest character count that fits (independent model), or None."""
    cap = oracle.capacity(version, level)
    if cap is None or not oracle.mode_available(version, mode):
        return None
    per = 2 if mode in ('kanji', 'hanzi') else 1
    best = None
    lo, hi = 0, 8000
    while lo <= hi:
        mid = (lo + hi) // 2
        b = qr.segment_bits(version, mode, mid * per)
        if b is not None and b <= cap:
            best = mid
            lo = mid + 1
        else:
            hi = mid - 1
    return best


def boundaries(modes=('numeric', 'alphanumeric', 'byte', 'kanji', 'hanzi')):
    """Every (version, level, mode) capacity boundary: (version, level, mode, nmax)."""
    out = []
    for v in oracle.ALL_VERSIONS:
        for lv in oracle.levels_of(v):
            for m in modes:
                n = max_chars(v, lv, m)
                if n is not None and n > 0:
                    out.append((v, lv, m, n))
    return out


def m4_full_right_edge_contents(limit=60, seed=0):
    """Alphanumeric contents for M4 symbols whose right-most column is completely dark under at least one mask
    candidate (an edge sum of 16 needs a fifth bit: the extreme value of the ISO 7.8.3.2 score). The right-most
    column carries the even bit positions of the first 32 stream bits; they are solved for, the odd ones enumerated."""
    from refmodel import qr as _qr
    out = []
    order = _qr.data_module_order('M4')
    col = [(r, c) for (r, c) in order[:32] if c == 16]
    pos = {rc: i for i, rc in enumerate(order[:32])}
    for k in range(4):
        fn = _qr.mask_fn('M4', k)
        need = {}
        for (r, c) in col:
            need[pos[(r, c)]] = 1 ^ (1 if fn(r, c) else 0)
        if need[0] != 0 or need[2] != 1:
            continue         # the mode indicator 001 is fixed: this candidate cannot be served by alphanumeric content
        free = [i for i in range(32) if i not in need]
        combos = list(range(0, 1 << len(free), 2))
        random.Random(seed).shuffle(combos)
        for combo in combos:
            bits = [0] * 32
            for i, v in need.items():
                bits[i] = v
            for j, i in enumerate(free):
                bits[i] = (combo >> j) & 1
            if bits[1] != 0:
                continue
            count = int(''.join(map(str, bits[3:8])), 2)
            p1 = int(''.join(map(str, bits[8:19])), 2)
            p2 = int(''.join(map(str, bits[19:30])), 2)
            if not 5 <= count <= 20 or p1 >= 2025 or p2 >= 2025:
                continue
            # third pair (or final single character) must start with bits 30, 31
            head = ALNUM[p1 // 45] + ALNUM[p1 % 45] + ALNUM[p2 // 45] + ALNUM[p2 % 45]
            rest = None
            if count >= 6:
                lo = (bits[30] << 10) | (bits[31] << 9)
                for p3 in range(lo, min(lo + 512, 2025)):
                    rest = ALNUM[p3 // 45] + ALNUM[p3 % 45] + 'A' * (count - 6)
                    break
            else:
                lo = (bits[30] << 5) | (bits[31] << 4)
                if lo < 45:
                    rest = ALNUM[lo]
            if rest is None:
                continue
            out.append(head + rest)
            if len(out) >= limit * (k + 1):
                break
    return out[:limit * 4]
