#!/usr/bin/env python3
"""Imports a seeded change produced by a sub-agent into /verif/seeded/<id>/ after confirming everything here:
the patch applies to /repo, the unedited suite still passes with it, the demonstration fails with it and passes
without it, and which of our checks report it. The patch is always undone straight afterwards."""
import json, os, shutil, subprocess, sys, time
V = os.path.dirname(os.path.dirname(os.path.abspath(__file__)))


def sh(cmd, **kw):
    return subprocess.run(cmd, shell=True, capture_output=True, text=True, **kw)


def main(src, sid, prop, checks):
    """Everything runs on a private copy of /repo's HEAD (VERIF_REPO for the checks): /repo itself is never touched."""
    dst = os.path.join(V, 'seeded', sid)
    os.makedirs(dst, exist_ok=True)
    for f in ('patch.diff', 'demo.py', 'notes.md'):
        if os.path.exists(os.path.join(src, f)):
            shutil.copy(os.path.join(src, f), os.path.join(dst, f))
    patch = os.path.join(dst, 'patch.diff')
    copy = '/root/scratch/seedimport-%d' % os.getpid()
    shutil.rmtree(copy, ignore_errors=True)
    os.makedirs(copy)
    sh('git -C /repo archive --format=tar HEAD | tar -x -C %s' % copy)
    env = dict(os.environ, PYTHONPATH=copy, PYTHONDONTWRITEBYTECODE='1')
    meta = {'id': sid, 'property': prop, 'source': 'independent sub-agent given only the property text and a scratch worktree',
            'imported_at_head': sh('git -C /repo rev-parse --short HEAD').stdout.strip()}
    try:
        r = sh('cd /tmp && /venv/bin/python %s/demo.py' % dst, env=env)
        meta['demo_without_change'] = {'exit': r.returncode}
        ap = sh('cd %s && patch -p1 -s < %s' % (copy, patch))
        if ap.returncode:
            meta['applies'] = False
            meta['apply_error'] = (ap.stdout + ap.stderr)[-300:]
            json.dump(meta, open(os.path.join(dst, 'meta.json'), 'w'), indent=1)
            print(sid, 'PATCH DOES NOT APPLY')
            return
        meta['applies'] = True
        r = sh('cd %s && /venv/bin/python -m pytest -q -p no:cacheprovider 2>&1 | tail -1' % copy, env=env)
        meta['suite_with_change'] = r.stdout.strip()
        r = sh('cd /tmp && /venv/bin/python %s/demo.py' % dst, env=env)
        meta['demo_with_change'] = {'exit': r.returncode, 'tail': (r.stdout + r.stderr)[-300:]}
        meta['checks'] = {}
        for c in checks:
            t = time.time()
            r = sh('cd %s && VERIF_REPO=%s /venv/bin/python -m vmon check %s --tier quick' % (V, copy, c))
            viol = [l for l in r.stdout.splitlines() if l.startswith('  deviation')][:2]
            meta['checks'][c] = {'exit': r.returncode, 'caught': r.returncode == 1, 'wall_s': round(time.time() - t, 1),
                                 'first_deviation': viol[0][:300] if viol else None}
    finally:
        shutil.rmtree(copy, ignore_errors=True)
    meta['caught_by'] = sorted(c for c, v in meta.get('checks', {}).items() if v['caught'])
    meta['needs_to_manifest'] = 'see notes.md'
    meta['ran'] = ['patch applied to a scratch copy of /repo HEAD', 'unedited test suite', 'demo.py with and without the change',
                   'python -m vmon check <id> --tier quick (VERIF_REPO=scratch copy) for: ' + ' '.join(checks)]
    json.dump(meta, open(os.path.join(dst, 'meta.json'), 'w'), indent=1)
    print(sid, 'suite:', meta['suite_with_change'][:30], 'demo without/with:', meta['demo_without_change']['exit'], meta['demo_with_change']['exit'],
          'caught by:', meta['caught_by'])


if __name__ == '__main__':
    main(sys.argv[1], sys.argv[2], sys.argv[3], sys.argv[4:])
