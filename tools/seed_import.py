#!/usr/bin/env python3
"""Imports a seeded change produced by a sub-agent into /verif/seeded/<id>/ after confirming everything here:
the patch applies to /repo, the unedited suite still passes with it, the demonstration fails with it and passes
without it, and which of our checks report it. The patch is always undone straight afterwards."""
import json, os, shutil, subprocess, sys, time
V = os.path.dirname(os.path.dirname(os.path.abspath(__file__)))


def sh(cmd, **kw):
    return subprocess.run(cmd, shell=True, capture_output=True, text=True, **kw)


def main(src, sid, prop, checks):
    dst = os.path.join(V, 'seeded', sid)
    os.makedirs(dst, exist_ok=True)
    for f in ('patch.diff', 'demo.py', 'notes.md'):
        if os.path.exists(os.path.join(src, f)):
            shutil.copy(os.path.join(src, f), os.path.join(dst, f))
    patch = os.path.join(dst, 'patch.diff')
    env = dict(os.environ, PYTHONPATH='/repo', PYTHONDONTWRITEBYTECODE='1')
    meta = {'id': sid, 'property': prop, 'source': 'independent sub-agent given only the property text and a scratch worktree'}
    st = sh('git -C /repo status --porcelain -- segno').stdout.strip()
    assert not st, 'repo not clean'
    r = sh('cd /tmp && /venv/bin/python %s/demo.py' % dst, env=env)
    meta['demo_without_change'] = {'exit': r.returncode}
    ap = sh('git -C /repo apply %s' % patch)
    if ap.returncode:
        meta['applies'] = False
        meta['apply_error'] = ap.stderr[-300:]
        json.dump(meta, open(os.path.join(dst, 'meta.json'), 'w'), indent=1)
        print(sid, 'PATCH DOES NOT APPLY')
        return
    try:
        meta['applies'] = True
        r = sh('cd /repo && /venv/bin/python -m pytest -q -p no:cacheprovider 2>&1 | tail -1')
        meta['suite_with_change'] = r.stdout.strip()
        r = sh('cd /tmp && /venv/bin/python %s/demo.py' % dst, env=env)
        meta['demo_with_change'] = {'exit': r.returncode, 'tail': (r.stdout + r.stderr)[-300:]}
        meta['checks'] = {}
        for c in checks:
            t = time.time()
            r = sh('cd %s && /venv/bin/python -m vmon check %s --tier quick' % (V, c))
            viol = [l for l in r.stdout.splitlines() if l.startswith('  deviation')][:2]
            meta['checks'][c] = {'exit': r.returncode, 'caught': r.returncode == 1, 'wall_s': round(time.time() - t, 1),
                                 'first_deviation': viol[0][:300] if viol else None}
    finally:
        sh('git -C /repo checkout -- segno')
    meta['caught_by'] = sorted(c for c, v in meta.get('checks', {}).items() if v['caught'])
    notes = open(os.path.join(dst, 'notes.md')).read() if os.path.exists(os.path.join(dst, 'notes.md')) else ''
    meta['needs_to_manifest'] = 'see notes.md'
    meta['ran'] = ['git -C /repo apply patch.diff', 'unedited test suite', 'demo.py with and without the change',
                   'python -m vmon check <id> --tier quick for: ' + ' '.join(checks), 'git -C /repo checkout -- segno']
    json.dump(meta, open(os.path.join(dst, 'meta.json'), 'w'), indent=1)
    print(sid, 'suite:', meta['suite_with_change'][:30], 'demo without/with:', meta['demo_without_change']['exit'], meta['demo_with_change']['exit'],
          'caught by:', meta['caught_by'])


if __name__ == '__main__':
    main(sys.argv[1], sys.argv[2], sys.argv[3], sys.argv[4:])
