#!/usr/bin/env python3
"""Mutation catalogue (DESIGN.md section 8): realistic source changes applied to a *scratch copy* of /repo
(under /root/scratch, never /repo), each one first run against the unedited repository suite (a mutant the suite
kills is discarded as unrealistic) and then against the quick checks named for it. Writes mutants/RESULTS.json.
usage: mutcat.py [name-substring ...]"""
import json, os, shutil, subprocess, sys, time
V = os.path.dirname(os.path.dirname(os.path.abspath(__file__)))
SCRATCH = '/root/scratch/mutrepo'
E, C, W, U, H, I, L = 'segno/encoder.py', 'segno/consts.py', 'segno/writers.py', 'segno/utils.py', 'segno/helpers.py', 'segno/__init__.py', 'segno/cli.py'
M = [
 # name, file, old, new, checks expected to fire
 ('alnum-table-swap', C, r"XYZ $%*+-./:'", r"XYZ %$*+-./:'", ['C01']),
 ('numeric-2digit-6bits', E, "append_bits(int(chunk), len(chunk) * 3 + 1)", "append_bits(int(chunk), len(chunk) * 3 + (1 if len(chunk) != 2 else 0))", ['C01']),
 ('kanji-count-not-halved', E, "else segment_length // 2", "else segment_length", ['C01']),
 ('fallback-order-sjis-first', E, "            # Try to use the default byte encoding\n            encoding = consts.DEFAULT_BYTE_ENCODING", "            # Try to use the default byte encoding\n            encoding = consts.KANJI_ENCODING", ['C01']),
 ('eci-utf8-25', C, "'utf-8': 26,", "'utf-8': 25,", ['C01']),
 ('eci-header-for-latin1-too', E, "            and segment.encoding != consts.DEFAULT_BYTE_ENCODING:\n        append_bits(consts.MODE_ECI, 4)", "            and segment.encoding is not None:\n        append_bits(consts.MODE_ECI, 4)", ['C01']),
 ('kanji-second-range-offset', E, "diff = code - 0xc140", "diff = code - 0xc141", ['C01']),
 ('hanzi-second-range-offset', E, "diff = code - 0xa6a1", "diff = code - 0xa6a0", ['C01']),
 ('micro-mode-indicator-len', E, "append_bits(consts.MODE_TO_MICRO_MODE_MAPPING[mode], ver + 3)", "append_bits(consts.MODE_TO_MICRO_MODE_MAPPING[mode], ver + 3 if ver < 0 else 2)", ['C01']),
 ('alignment-v36', C, "(6, 24, 50, 76, 102, 128, 154),", "(6, 24, 50, 76, 102, 128, 156),", ['C02']),
 ('format-info-cell', C, "0x355f, 0x3068, 0x3f31, 0x3a06, 0x24b4, 0x2183, 0x2eda, 0x2bed,", "0x355f, 0x3068, 0x3f31, 0x3a06, 0x24b4, 0x2183, 0x2eda, 0x2bec,", ['C02']),
 ('format-micro-cell', C, "0x6793, 0x62a4, 0x6dfd, 0x68ca, 0x7678, 0x734f, 0x7c16, 0x7921,", "0x6793, 0x62a4, 0x6dfd, 0x68ca, 0x7678, 0x734f, 0x7c16, 0x7920,", ['C02']),
 ('second-format-copy-bit', E, "            row_eight[-1 - i] = vbit", "            row_eight[-1 - i] = vbit if i != 7 else 0", ['C02']),
 ('dark-module-omitted', E, "    if not is_micro:\n        # Dark module\n        matrix[-8][8] = 0x1", "    if not is_micro and version < 40:\n        # Dark module\n        matrix[-8][8] = 0x1", ['C02']),
 ('version-info-v40', C, "0x27541, 0x28c69,", "0x27541, 0x28c68,", ['C02']),
 ('default-border-m4', U, "return 4 if width > 17 and width == height else 2", "return 4 if width > 15 and width == height else 2", ['C02']),
 ('designator-drops-level-m2', I, "        return '-'.join((version, self.error) if self.error else (version,))", "        return '-'.join((version, self.error) if self.error and version != 'M2' else (version,))", ['C02']),
 ('ecc-cell-v13q', C, "ERROR_LEVEL_Q: (EC(8, 44, 20), EC(4, 45, 21)),", "ERROR_LEVEL_Q: (EC(4, 44, 20), EC(8, 45, 21)),", ['C03']),
 ('gen-poly-coefficient', C, "    7: (87, 229, 146, 149, 238, 102, 21),", "    7: (87, 229, 146, 149, 238, 102, 22),", ['C03']),
 ('galois-exp-entry', C, "GALIOS_EXP = ([\n    1, 2, 4, 8, 16, 32, 64, 128, 29, 58,", "GALIOS_EXP = ([\n    1, 2, 4, 8, 16, 32, 64, 128, 29, 59,", ['C03']),
 ('cw-four-shift', E, "cw_four = to_binary(data_blocks[0].pop(-1) >> 4, 4)", "cw_four = to_binary(data_blocks[0].pop(-1) & 0xf, 4)", ['C03', 'C13', 'C01']),
 ('remainder-v14-4', E, "    elif version in (14, 15, 16, 17, 18, 19, 20, 28, 29, 30, 31, 32, 33, 34):\n        remainder = 3", "    elif version in (15, 16, 17, 18, 19, 20, 28, 29, 30, 31, 32, 33, 34):\n        remainder = 3", ['C13', 'C03']),
 ('capacity-cell-v23m', C, "23:   {ERROR_LEVEL_L: 8752,  ERROR_LEVEL_M: 6880,", "23:   {ERROR_LEVEL_L: 8752,  ERROR_LEVEL_M: 6888,", ['C04']),
 ('find-version-gt', E, "            if consts.SYMBOL_CAPACITY[version][error] >= segments.bit_length_with_overhead(version, eci, is_sa):", "            if consts.SYMBOL_CAPACITY[version][error] > segments.bit_length_with_overhead(version, eci, is_sa):", ['C04']),
 ('cci-len-kanji-10-26', C, "        VERSION_RANGE_01_09: 8,\n        VERSION_RANGE_10_26: 10,\n        VERSION_RANGE_27_40: 12,                               VERSION_M3: 3, VERSION_M4: 4},", "        VERSION_RANGE_01_09: 8,\n        VERSION_RANGE_10_26: 11,\n        VERSION_RANGE_27_40: 12,                               VERSION_M3: 3, VERSION_M4: 4},", ['C04', 'C01']),
 ('m1-with-error-level', E, "    if error is not None and micro_allowed:\n        min_version = consts.VERSION_M2", "    if error is not None and micro_allowed and False:\n        min_version = consts.VERSION_M2", ['C04']),
 ('guessed-ge-version', E, "    elif guessed_version > version:", "    elif guessed_version >= version and version > 20:", ['C04']),
 ('boost-gt', E, "            if consts.SYMBOL_CAPACITY[version][error_level] >= data_length:", "            if consts.SYMBOL_CAPACITY[version][error_level] > data_length:", ['C05']),
 ('boost-multi-segment', E, "    if error not in (consts.ERROR_LEVEL_H, None) and len(segments) == 1:", "    if error not in (consts.ERROR_LEVEL_H, None):", []),
 ('default-level-m', E, "    if error is None and version != consts.VERSION_M1:\n        error = consts.ERROR_LEVEL_L\n    is_micro = version < 1", "    if error is None and version != consts.VERSION_M1:\n        error = consts.ERROR_LEVEL_L if version < 30 else consts.ERROR_LEVEL_M\n    is_micro = version < 1", ['C05']),
 ('boost-levels-micro-q-for-m3', E, "            if version < consts.VERSION_M4:\n                levels.pop()", "            if version < consts.VERSION_M3:\n                levels.pop()", ['C05', 'C14']),
 ('n1-minus-3', E, "                    score_n1 += n1_row_counter - 2\n                n1_row_counter = 1", "                    score_n1 += n1_row_counter - 3\n                n1_row_counter = 1", ['C06']),
 ('n2-weight', E, "                score_n2 += 3", "                score_n2 += 4", ['C06']),
 ('n3-weight-30', E, "                count += 40  # N3 = 40", "                count += 30  # N3 = 40", ['C06']),
 ('n4-rounding', E, "    score_n4 = 10 * int(abs(percent * 100 - 50) / 5)  # N4 = 10", "    score_n4 = 10 * round(abs(percent * 100 - 50) / 5)  # N4 = 10", ['C06']),
 ('last-best-wins', E, "    is_better = lt\n", "    is_better = lambda a, b: a <= b  # noqa\n", ['C06']),
 ('micro-score-lt', E, "    return sum1 * 16 + sum2 if sum1 <= sum2 else sum2 * 16 + sum1", "    return sum1 * 16 + sum2 if sum1 < sum2 else sum2 * 16 + sum1", []),
 ('micro-score-col', E, "    sum1 = sum(matrix[i][-1] for i in module_range)", "    sum1 = sum(matrix[i][-1] for i in range(0, width))", ['C06']),
 ('mask-on-dark-module', E, "    if not is_micro:\n        function_matrix[-8][8] = 0x1\n", "    if not is_micro:\n        function_matrix[-8][8] = 0x2\n", ['C06']),
 ('isdigit-isalnum', E, "    if data.isdigit():\n        return consts.MODE_NUMERIC", "    if data.isdigit() or (data.isalnum() and data.isupper() and len(data) > 40):\n        return consts.MODE_NUMERIC", ['C07', 'C01', 'C14']),
 ('kanji-upper-bound', E, "        if not (0x8140 <= code <= 0x9ffc or 0xe040 <= code <= 0xebbf):\n            return False\n        # The trail", "        if not (0x8140 <= code <= 0x9ffc or 0xe040 <= code <= 0xebff):\n            return False\n        # The trail", ['C07']),
 ('requested-mode-le', E, "        if segment_mode < guessed_mode:", "        if segment_mode < guessed_mode and segment_mode != consts.MODE_ALPHANUMERIC:", ['C07', 'C14']),
 ('supported-modes-m2-byte', C, "    MODE_BYTE: (None, VERSION_M3, VERSION_M4),", "    MODE_BYTE: (None, VERSION_M2, VERSION_M3, VERSION_M4),", ['C07', 'C14']),
 ('mode-property-name', I, "            return encoder.get_mode_name(self._mode)", "            return encoder.get_mode_name(self._mode if self._mode != 8 else 4)", ['C02']),
 ('sa-header-nibble-order', E, "        for i in sa_info[:3]:\n            buff.append_bits(i, 4)", "        for i in (sa_info[0], sa_info[2], sa_info[1]):\n            buff.append_bits(i, 4)", ['C08']),
 ('sa-total-len', E, "    sa_info = partial(_StructuredAppendInfo, total=len(chunks) - 1,", "    sa_info = partial(_StructuredAppendInfo, total=len(chunks) % 16,", ['C08']),
 ('sa-parity-first-chunk', E, "    sa_parity_data = calc_structured_append_parity(content)", "    sa_parity_data = calc_structured_append_parity(content[:len(content) // 2 + 8])", ['C08']),
 ('sa-chunks-drop-remainder', E, "        return [data[i * k + min(i, m):(i + 1) * k + min(i + 1, m)] for i in range(num)]", "        return [data[i * k:(i + 1) * k] for i in range(num)]", ['C08']),
 ('sa-symbol-count-17', E, "    if symbol_count is not None and not 1 <= symbol_count <= 16:", "    if symbol_count is not None and not 1 <= symbol_count <= 17:", ['C08', 'C14']),
 ('png-filter-1', W, "        same_as_above = scanline(repeat(0x0, width), filter_type=b'\\2') * (scale - 1)", "        same_as_above = scanline(repeat(0x0, width), filter_type=b'\\1') * (scale - 1)", ['C09']),
 ('png-border-unscaled', W, "        horizontal_border = scanline(repeat(qz_value, width)) * border * scale\n", "        horizontal_border = scanline(repeat(qz_value, width)) * border * (scale if scale < 4 else 3)\n", ['C09']),
 ('xbm-no-bit-reversal', W, "bits[::-1]):02x}' for bits in iter_]", "bits if width % 8 == 5 else bits[::-1]):02x}' for bits in iter_]", ['C09']),
 ('compact-fill-value', W, "        for top_row, bottom_row in zip_longest(*it, fillvalue=repeat(1)):", "        for top_row, bottom_row in zip_longest(*it, fillvalue=repeat(0)):", ['C09']),
 ('png-trns-index', W, "                write(chunk(b'tRNS', pack(b'>B', png_trans_idx)))", "                write(chunk(b'tRNS', pack(b'>B', 255)))", ['C09', 'C11']),
 ('pam-depth', W, "        depth = 3 if not transparency else 4", "        depth = 3 if not transparency else 4\n        maxval = 255 if depth == 3 else 254", ['C09']),
 ('txt-border-default', W, "    row_iter = matrix_iter(matrix, matrix_size, scale=1, border=border)\n    colours = (str(light), str(dark))", "    row_iter = matrix_iter(matrix, matrix_size, scale=1, border=border if border != 1 else 2)\n    colours = (str(light), str(dark))", ['C09']),
 ('matrix-to-lines-off-by-one', U, "            if last_bit != bit and not bit:\n                yield (x1, y), (x2, y)\n                x1 = x2", "            if last_bit != bit and not bit:\n                yield (x1, y), (x2 if x2 - x1 < 9 else x2 - 1, y)\n                x1 = x2", ['C10']),
 ('eps-y-flip', W, "    y = get_symbol_size(matrix_size, scale=1, border=0)[1] + border - .5  # .5 = linewidth / 2", "    y = get_symbol_size(matrix_size, scale=1, border=0)[1] + border - (.5 if border else 0)  # .5 = linewidth / 2", ['C10']),
 ('svg-border-half', W, "        x, y = border, border + .5\n        dark = colormap[consts.TYPE_DATA_DARK]", "        x, y = border, border + (.5 if border != 3 else 0)\n        dark = colormap[consts.TYPE_DATA_DARK]", ['C10']),
 ('pdf-length-uncompressed', W, "f'obj <</Length {len(graphic)} /Filter /FlateDecode>>\\r\\nstream\\r\\n'):", "f'obj <</Length {len(graphic) + (compresslevel == 0)} /Filter /FlateDecode>>\\r\\nstream\\r\\n'):", ['C10']),
 ('pdf-xref-shifted', W, "            writestr(f'{pos:010d} {0:05d} n\\r\\n')", "            writestr(f'{pos + (1 if pos > 9999 else 0):010d} {0:05d} n\\r\\n')", ['C10']),
 ('svg-title-unescaped', W, "        svg += f'<title>{escape(title)}</title>'", "        svg += f'<title>{title}</title>'", ['C10']),
 ('svg-viewbox-unscaled', W, "        svg += f' viewBox=\"0 0 {width} {height}\"'", "        svg += f' viewBox=\"0 0 {width // scale if unit else width} {height // scale if unit else height}\"'", ['C10']),
 ('tex-x-scale', W, "            write(f'  \\\\pgfpathlineto{{{point(x2 * scale, y2 * scale)}}}\\n')", "            write(f'  \\\\pgfpathlineto{{{point(x2 * int(scale or 1), y2 * scale)}}}\\n')", ['C10']),
 ('verbose-version-bound', U, "                    if i < 6 and width - 12 < j < width - 8 \\", "                    if i < 6 and width - 11 < j < width - 8 \\", ['C11']),
 ('verbose-separator-7', U, "            if i < 8 and (j < 8 or (not is_micro and j > width - 9)) \\", "            if i < 7 and (j < 8 or (not is_micro and j > width - 9)) \\", ['C11']),
 ('verbose-8-size-10', U, "            if i == 8 and (j < 9 or (not is_micro and j > width - 10)) \\", "            if i == 8 and (j < 9 or (not is_micro and j > width - 11)) \\", ['C11']),
 ('colormap-separator-dark', W, "        consts.TYPE_SEPARATOR: separator if separator is not False else light,", "        consts.TYPE_SEPARATOR: separator if separator is not False else (light if quiet_zone is False else dark),", ['C11']),
 ('ppm-plain-iter', W, "    row_iter = matrix_iter_verbose(matrix, matrix_size, scale, border)\n    with writable(out, 'wb') as f:\n        write = f.write\n        write(f'P6", "    row_iter = matrix_iter_verbose(matrix, matrix_size, scale, border if border != 3 else 2)\n    with writable(out, 'wb') as f:\n        write = f.write\n        write(f'P6", ['C09', 'C11']),
 ('matrix-iter-scale-rows', U, "        row = tuple(chain.from_iterable(repeat(r[j] if 0 <= j < width else 0x0, scale) for j in width_range))\n        for s in repeat(None, scale):", "        row = tuple(chain.from_iterable(repeat(r[j] if 0 <= j < width else 0x0, scale) for j in width_range))\n        for s in repeat(None, scale if scale < 5 else scale - 1):", ['C11', 'C09']),
 ('border-check-int', U, "    if border is not None and (int(border) != border or border < 0):", "    if border is not None and border < 0:", ['C11', 'C14']),
 ('cli-drops-dpi', L, "    if config.pop('no_classes', False):", "    config.pop('dpi', None)\n    if config.pop('no_classes', False):", ['C12']),
 ('kind-case-sensitive', W, "        ext = kind.lower()", "        ext = kind", ['C12', 'C14']),
 ('data-uri-nl', W, "                    encoding='utf-8', svgversion=None, nl=False,\n                    encode_minimal", "                    encoding='utf-8', svgversion=None, nl=True,\n                    encode_minimal", []),
 ('sequence-index-from-0', I, "        for n, qrcode in enumerate(self, start=1):", "        for n, qrcode in enumerate(self, start=0):", ['C12']),
 ('cli-terminal-border', L, "        qr.terminal(border=config['border'], compact=config.get('compact', False))", "        qr.terminal(border=config['border'] or None, compact=config.get('compact', False))", ['C12']),
 ('terminator-m2-table', C, "    VERSION_M2: 5,", "    VERSION_M2: 3,", ['C13']),
 ('pad-order-11-first', E, "        for i in range(capacity // 8 - length // 8):\n            write(pad_codewords[i % 2])", "        for i in range(capacity // 8 - length // 8):\n            write(pad_codewords[(i + 1) % 2])", ['C13']),
 ('pad-count-minus-1', E, "        for i in range(capacity // 8 - length // 8):\n            write(pad_codewords[i % 2])", "        for i in range(capacity // 8 - length // 8 - (1 if version > 38 else 0)):\n            write(pad_codewords[i % 2])", ['C13']),
 ('terminator-skipped-near-fit', E, "    buff.extend([0] * min(capacity - length, consts.TERMINATOR_LENGTH[ver]))", "    buff.extend([1 if capacity - length == 2 else 0] * min(capacity - length, consts.TERMINATOR_LENGTH[ver]))", ['C13', 'C01']),
 ('except-narrowed', E, "        try:\n            version = consts.MICRO_VERSION_MAPPING[version.upper()]\n        except (KeyError, AttributeError):", "        try:\n            version = consts.MICRO_VERSION_MAPPING[version.upper()]\n        except AttributeError:", ['C14']),
 ('mask-le-8', E, "        if not 0 <= mask < 8:", "        if not 0 <= mask <= 8:", ['C14']),
 ('h-micro-check-removed', E, "    if error == consts.ERROR_LEVEL_H and (micro or version in consts.MICRO_VERSIONS):", "    if error == consts.ERROR_LEVEL_H and (version in consts.MICRO_VERSIONS):", ['C14']),
 ('cli-except-dataoverflow', L, "    except ValueError as ex:\n        sys.stderr.writelines([str(ex), os.linesep])", "    except segno.DataOverflowError as ex:\n        sys.stderr.writelines([str(ex), os.linesep])", ['C14']),
 ('mask-str-not-normalised', E, "    try:\n        mask = int(mask)\n    except ValueError:", "    try:\n        mask = int(mask) if not isinstance(mask, str) else int(mask, 8)\n    except ValueError:", ['C14']),
 ('version-str-upper-only', E, "            version = consts.MICRO_VERSION_MAPPING[version.upper()]", "            version = consts.MICRO_VERSION_MAPPING[version]", ['C14']),
 ('lru-cache-make-matrix', E, "def make_matrix(width, height, reserve_regions=True, add_timing=True):", "import functools as _ft\n\n\n@_ft.lru_cache(maxsize=None)\ndef make_matrix(width, height, reserve_regions=True, add_timing=True):", ['C15']),
 ('mask-candidates-share-rows', E, "        m = [ba[:] for ba in matrix]", "        m = [ba[:] for ba in matrix] if mask_number else list(matrix)", []),
 ('colormap-module-level', W, "    for mt, clr in colormap.items():\n        colormap[mt] = _color_to_rgb(clr)", "    for mt, clr in colormap.items():\n        colormap[mt] = _PPM_CACHE.setdefault(mt, _color_to_rgb(clr))", ['C15', 'C11']),
 ('default-arg-list', E, "def prepare_data(content, mode, encoding):", "def prepare_data(content, mode, encoding, _seen=[]):", []),
 ('mecard-escape-no-backslash', H, "    ord('\\\\'): \"\\\\\\\\\",\n", "", ['C16']),
 ('epc-rstrip-no-guard', H, "                f'EUR{amount:.2f}'.rstrip('0').rstrip('.'),  # Amount", "                f'EUR{amount:.2f}'.rstrip('0.'),  # Amount", ['C16']),
 ('epc-bic-length', H, "    if bic and len(bic) not in (8, 11):", "    if bic and len(bic) not in (8, 9, 11):", ['C16']),
 ('epc-charset-off-by-one', H, "        for idx, enc in enumerate(encodings[1:], start=2):", "        for idx, enc in enumerate(encodings[1:], start=1):", ['C16']),
 ('mailto-quote-safe', H, "            data.append(f'{delim}{key}={quote(val.encode(\"utf-8\"))}')", "            data.append(f'{delim}{key}={quote(val.encode(\"utf-8\"), safe=\"/&\")}')", ['C16']),
 ('wifi-password-unescaped', H, "        data += f'P:{escape(password)};'", "        data += f'P:{password};'", ['C16']),
 ('geo-precision-6', H, "        return f'{f:.8f}'.rstrip('0').rstrip('.')", "        return f'{f:.6f}'.rstrip('0').rstrip('.')", ['C16']),
 ('make-qr-drops-boost', I, "                encoding=encoding, eci=eci, micro=False, boost_error=boost_error)", "                encoding=encoding, eci=eci, micro=False)", ['C05', 'C14']),
 ('make-micro-drops-mask', I, "    return make(content, error=error, version=version, mode=mode, mask=mask,\n                encoding=encoding, micro=True, boost_error=boost_error)", "    return make(content, error=error, version=version, mode=mode,\n                encoding=encoding, micro=True, boost_error=boost_error)", ['C14', 'C06']),
 ('make-swaps-eci-micro', I, "                                 eci, micro, boost_error=boost_error))", "                                 eci and not micro, micro, boost_error=boost_error))", ['C14', 'C01']),
 ('epc-level-boost', H, "                       error='m', boost_error=False)", "                       error='m')", ['C16']),
]
EXTRA = {'colormap-module-level': (W, "def _is_two_colored(colormap):", "_PPM_CACHE = {}\n\n\ndef _is_two_colored(colormap):")}


def sh(cmd, **kw):
    return subprocess.run(cmd, shell=True, capture_output=True, text=True, **kw)


ALL = '--all' in sys.argv


def main():
    want = [a for a in sys.argv[1:] if a != '--all']
    os.makedirs(os.path.join(V, 'mutants'), exist_ok=True)
    respath = os.path.join(V, 'mutants', 'RESULTS.json')
    results = json.load(open(respath)) if os.path.exists(respath) else {}
    for name, f, old, new, checks in M:
        if want and not any(w in name for w in want):
            continue
        shutil.rmtree(SCRATCH, ignore_errors=True)
        sh('git -C /repo worktree prune; mkdir -p /root/scratch && git -C /repo archive --format=tar --prefix=mutrepo/ HEAD | tar -x -C /root/scratch')
        edits = [(f, old, new)] + ([EXTRA[name]] if name in EXTRA else [])
        ok = True
        for ff, o, n in edits:
            p = os.path.join(SCRATCH, ff)
            s = open(p).read()
            if s.count(o) != 1:
                print('%-32s DOES NOT APPLY (%d matches)' % (name, s.count(o)))
                results[name] = {'status': 'does-not-apply'}
                ok = False
                break
            open(p, 'w').write(s.replace(o, n))
        if not ok:
            continue
        env = dict(os.environ, PYTHONPATH=SCRATCH, PYTHONDONTWRITEBYTECODE='1')
        r = sh('cd %s && /venv/bin/python -m pytest -q -p no:cacheprovider -x 2>&1 | tail -1' % SCRATCH, env=env)
        suite = r.stdout.strip()
        if '1576 passed' not in suite:
            if not ALL:
                print('%-32s killed by the repository suite (%s) - discarded' % (name, suite[:40]))
                results[name] = {'status': 'killed-by-suite', 'suite': suite[:80], 'file': f}
                json.dump(results, open(respath, 'w'), indent=1, sort_keys=True)
                continue
            res = {'status': 'killed-by-suite', 'suite': suite[:80], 'file': f, 'expected': checks, 'checks': {}}
        else:
            if ALL:
                continue
            res = {'status': 'survives-suite', 'file': f, 'expected': checks, 'checks': {}}
        run = checks or ['C01', 'C02', 'C03']
        for c in run:
            r = sh('cd %s && VERIF_REPO=%s /venv/bin/python -m vmon check %s --tier quick' % (V, SCRATCH, c))
            first = [l for l in r.stdout.splitlines() if l.startswith('  deviation')][:1]
            res['checks'][c] = {'exit': r.returncode, 'first': first[0][:220] if first else None}
        res['caught_by'] = sorted(c for c, v in res['checks'].items() if v['exit'] == 1)
        results[name] = res
        json.dump(results, open(respath, 'w'), indent=1, sort_keys=True)
        print('%-32s caught by %s%s' % (name, res['caught_by'] or 'NOTHING', '' if set(checks) <= set(res['caught_by']) else '   (expected %s)' % checks))
    shutil.rmtree(SCRATCH, ignore_errors=True)


if __name__ == '__main__':
    main()
