#!/usr/bin/env python3
"""Writes /verif/MANIFEST.json from the table below and validates it."""
import json, os, sys
V = os.path.dirname(os.path.dirname(os.path.abspath(__file__)))
PY = '/venv/bin/python'
CHECKS = {
 'C01': ('Every symbol accepted by make/make_qr/make_micro is decoded by an independent ISO 18004 reference decoder inside a post-condition on encoder.encode and compared byte for byte with the specification-level payload; ECI headers are checked against an independent AIM assignment table. Exploration: thousands of class-stratified inputs per run, all 256 one-byte inputs, every mode at every version at, below and just above capacity (thorough: all 65,536 two-byte inputs).',
         'runtime monitor: icontract post-condition on encoder.encode + reference decoder oracle', '6 C01'),
}
NOTE = 'Trusted base: /verif/refmodel (independent model/decoder and format readers), CPython codecs/zlib/xml. Held means held on the executions listed in the evidence file.'
def main():
    checks = []
    for pid, (text, tech, ref) in sorted(CHECKS.items()):
        checks.append({
            'property_id': pid,
            'quick_cmd': '%s -m vmon check %s --tier quick' % (PY, pid),
            'thorough_cmd': '%s -m vmon check %s --tier thorough' % (PY, pid),
            'evidence_file': 'evidence/%s.json' % pid,
            'replay_cmd_template': '%s -m vmon replay {path}' % PY,
            'engine': 'vmon',
            'level_claimed': {'category': 'exploration', 'text': text, 'design_ref': 'DESIGN.md section ' + ref},
            'level_note': NOTE,
            'technique': tech,
        })
    props = [json.loads(l)['id'] for l in open(os.path.join(V, 'properties.jsonl'))]
    NA = json.load(open(os.path.join(V, 'tools', 'not_applicable.json')))
    na = [{'property_id': p, 'reason': NA.get(p, 'check not built yet in this session (planned, see DESIGN.md section 6); not claimed until it exists and is silent on the unchanged tree')}
          for p in props if p not in CHECKS]
    m = {
        'version': 1,
        'setup_cmd': '%s -m pip install --quiet --no-index --find-links /opt/veriftools/wheels --target .deps icontract' % PY,
        'hooks': {'guard': 'SEGNO_VERIF', 'enable': 'no source hooks: monitors are attached from /verif by rebinding module attributes of the imported /repo package (VERIF_REPO selects the tree)',
                  'baseline_off_cmd': 'cd /repo && /venv/bin/python -m pytest -ra -q -p no:cacheprovider --timeout=900 --continue-on-collection-errors',
                  'source_commits': [], 'add_only': True},
        'engines': [{'name': 'vmon', 'path': 'vmon', 'serves_properties': sorted(CHECKS),
                     'kind_free_text': 'runtime monitoring: boundary contracts (icontract) on the real segno functions, reference-model oracles (refmodel/), offline checkers over recorded observations, sharded over subprocess workers'}],
        'checks': checks,
        'notes': 'Known findings and fixed defects: known_findings.json. Seeded breaking changes: seeded/. See DESIGN.md.',
        'not_applicable': na,
    }
    with open(os.path.join(V, 'MANIFEST.json'), 'w') as f:
        json.dump(m, f, indent=1); f.write('\n')
    try:
        sys.path.insert(0, '/opt/veriftools/pyvenv/lib/python3.11/site-packages')
        import jsonschema
        jsonschema.validate(m, json.load(open('/root/.vp/MANIFEST.schema.json')))
        print('MANIFEST valid,', len(checks), 'checks,', len(na), 'not claimed')
    except ImportError:
        print('jsonschema not available; not validated')
if __name__ == '__main__':
    main()
