#!/usr/bin/env python3
"""Writes /verif/MANIFEST.json from the table below and validates it."""
import json, os, sys
V = os.path.dirname(os.path.dirname(os.path.abspath(__file__)))
PY = '/venv/bin/python'
CHECKS = {
 'C01': ('Every symbol accepted by make/make_qr/make_micro is decoded by an independent ISO 18004 reference decoder inside a post-condition on encoder.encode and compared byte for byte with the specification-level payload; ECI headers are checked against an independent AIM assignment table. Exploration: thousands of class-stratified inputs per run, all 256 one-byte inputs, every mode at every version at, below and just above capacity (thorough: all 65,536 two-byte inputs).',
         'runtime monitor: icontract post-condition on encoder.encode + reference decoder oracle; keyword / positional / one-shot-iterator calling, a python -O worker', '6 C01'),
 'C02': ('All 1312 (version, level, mask) triples are enumerated on every run with several contents each; every module of every emitted matrix is compared with an independent function-pattern map, format/version words are recomputed (BCH/Golay) and cross-checked by zero RS syndromes, QRCode metadata is compared with the matrix.',
         'runtime monitor: post-condition on encoder.encode + independent geometry/format model, exhaustive triple enumeration; copies / pickles of the returned object, a python -O worker', '6 C02'),
 'C03': ('All 168 block layouts: syndromes under the independent Table 9 layout must vanish; then faults are injected into the emitted matrix (up to floor(ec/2) codewords per block in several patterns) and a Berlekamp-Massey decoder must restore data and payload. Evidence counts injected vs corrected codewords.',
         'runtime monitor + fault injection on the output, RS syndrome / BM decoder oracle', '6 C03'),
 'C04': ('Every (version, level, mode) capacity boundary of the independent model, both sides, automatic and requested version, crossed with micro/eci/boost and multi-segment boundaries; accepted symbols are decoded and re-costed in all smaller admissible versions; overflow must be DataOverflowError.',
         'runtime monitor: boundary-stratified workload + capacity model oracle on decoded segments', '6 C04'),
 'C05': ('Capacity boundaries x requested level x boost: level read from the format information, expected boosted level recomputed from decoded bit count; the monitor issues the paired boost-off call and compares versions; make_sequence with boost off included.',
         'runtime monitor: post-condition + paired-call differential oracle', '6 C05'),
 'C06': ('All candidate maskings are reconstructed from the emitted matrix and scored with an independent ISO 7.8.3 scorer; automatic mask must be the lowest-numbered optimum, requested mask must be the one applied (format word + zero syndromes), also through make_sequence. One pinned deviation (N3 overlap) is a classified known finding.',
         'runtime monitor: post-condition + unmask/remask/score oracle from the output alone; recording hooks on the scoring functions (real calls, then boundary matrices)', '6 C06'),
 'C07': ('All one-byte and (thorough: all 65,536) two-byte contents plus class strings x requested mode x version class; decoded mode indicator vs specification-level expectation; representable requested modes must be honoured, unrepresentable refused with ValueError.',
         'runtime monitor: post-condition + mode model oracle, small-scope exhaustive inputs', '6 C07'),
 'C08': ('make_sequence over content classes x selectors x levels x lengths up to beyond 16 symbols; every symbol decoded; offline checker over the sequence (count, versions, headers, parity, reassembly). Three pinned/recorded mechanisms are classified known findings.',
         'runtime monitor: offline checker over recorded symbol sequences + reference decoder', '6 C08'),
 'C13': ('Lengths constructed so that every residue x distance-to-capacity combination occurs for QR and each Micro version; the tail after the last segment (terminator, alignment bits, pad codewords, final nibble, remainder bits) is checked on the decoded data codewords. One pinned deviation (extra 0x00 codeword) is a classified known finding.',
         'runtime monitor: post-condition + tail-structure analysis of decoded codewords', '6 C13'),
 'C14': ('Thousands of argument vectors from domain tables (all documented spellings and boundary junk) for make/make_qr/make_micro/make_sequence with an exception-class monitor and a model of excluded combinations, spelling pairs compared by matrix, serialiser refusals, CLI subprocesses compared with the library message.',
         'runtime monitor: exception-class monitor + combination model + differential spelling pairs + CLI observed as subprocess and in-process (redirected stderr, outputs that cannot be stored)', '6 C14'),
 'C09': ('Renders over all symbol sizes, kinds (png, pbm P4/P1, pam, ppm, xbm, xpm, txt, ans, compact), scales, borders and colour forms are parsed by independent format readers (container well-formedness incl. PNG chunk CRCs / zlib stream length / filters / palette, Netpbm headers and raster lengths) and compared pixel by pixel / cell by cell with the grid predicted from the matrix; scale < 1 must be refused.',
         'runtime monitor: independent format readers as oracle over rendered bytes', '6 C09'),
 'C10': ('SVG, EPS, PDF and TikZ documents over sizes x fractional scales x borders x colours x SVG options are interpreted by independent mini-interpreters (XML, PostScript tokens, PDF objects/xref/inflate/content operators, PGF); the stroked segments are rasterised on the module grid after applying the document transforms and compared with the dark modules; page box, colours, opacity, background, PDF /Length and xref offsets are checked.',
         'runtime monitor: mini-interpreters + rasterisation oracle over emitted documents', '6 C10'),
 'C11': ('matrix_iter plain and verbose over every module of all 44 symbol sizes (exhaustive in every run) against the independent function-pattern map and documented type codes; invalid border/scale -> ValueError; colourful PNG/SVG/PPM with random per-type colour subsets (incl. two-colour configurations against the dark/light split) compared per pixel / per cell with the configured type colour. One pinned deviation ((8, size-9) typed as format) is a classified known finding.',
         'runtime monitor: exhaustive module enumeration + type-map oracle + format readers', '6 C11'),
 'C12': ('For each option set every applicable output route (path lower/upper case, streams, svgz, data URIs, svg_inline, cli.main in-process and subprocess) is executed and an offline checker requires byte-identical documents (timestamps blanked); CLI terminal output vs QRCode.terminal; sequence file names and contents with an open() audit hook; unknown extensions refused.',
         'runtime monitor: differential route log + offline equality checker + audit hook; CLI in-process and as subprocess under several stdout encodings', '6 C12'),
 'C15': ('A recorded call list is executed in fresh subprocesses (golden), then in shuffled/repeated histories and from 8 threads (barrier-started first use of each size, free running, seeded yield injection via sys.monitoring LINE events, switch interval 1e-6); fingerprints must equal golden; module tables, arguments and previously returned symbols are fingerprinted before/after; idempotence pairs. Evidence reports overlapping call pairs and injected yields.',
         'runtime monitor: golden-log comparison (fresh interpreters, other hash seeds and time zones) under history and schedule stress with yield injection + fingerprints of library tables and interpreter-wide settings', '6 C15'),
 'C16': ('Payloads of the WIFI, MeCard, vCard, geo, mailto and EPC builders with adversarial values are parsed back by small independent parsers and compared with the supplied fields; EPC limits (accept in-limit, refuse out-of-limit), amount by exact Decimal arithmetic, charset, length, level/version; factory symbols pass the C01 decoder post-condition with exactly the payload.',
         'runtime monitor: parse-back oracles + C01 post-condition on factory symbols', '6 C16'),
}
NOTE = 'Trusted base: /verif/refmodel (independent model/decoder and format readers), CPython codecs/zlib/xml. Held means held on the executions listed in the evidence file.'
def main():
    checks = []
    for pid, (text, tech, ref) in sorted(CHECKS.items()):
        checks.append({
            'property_id': pid,
            'quick_cmd': '%s -m vmon check %s --tier quick' % (PY, pid),
            'thorough_cmd': '%s -m vmon check %s --tier thorough' % (PY, pid),
            'evidence_file': 'evidence/%s.json' % pid,
            'replay_cmd_template': '%s -m vmon replay {path}' % PY,
            'engine': 'vmon',
            'level_claimed': {'category': 'exploration', 'text': text, 'design_ref': 'DESIGN.md section ' + ref},
            'level_note': NOTE,
            'technique': tech,
        })
    props = [json.loads(l)['id'] for l in open(os.path.join(V, 'properties.jsonl'))]
    NA = json.load(open(os.path.join(V, 'tools', 'not_applicable.json')))
    na = [{'property_id': p, 'reason': NA.get(p, 'check not built yet in this session (planned, see DESIGN.md section 6); not claimed until it exists and is silent on the unchanged tree')}
          for p in props if p not in CHECKS]
    m = {
        'version': 1,
        'setup_cmd': '%s -m pip install --quiet --no-index --find-links /opt/veriftools/wheels --target .deps icontract' % PY,
        'hooks': {'guard': 'SEGNO_VERIF', 'enable': 'no source hooks: monitors are attached from /verif by rebinding module attributes of the imported /repo package (VERIF_REPO selects the tree)',
                  'baseline_off_cmd': 'cd /repo && /venv/bin/python -m pytest -ra -q -p no:cacheprovider --timeout=900 --continue-on-collection-errors',
                  'source_commits': [], 'add_only': True},
        'engines': [{'name': 'vmon', 'path': 'vmon', 'serves_properties': sorted(CHECKS),
                     'kind_free_text': 'runtime monitoring: boundary contracts (icontract) on the real segno functions, reference-model oracles (refmodel/), offline checkers over recorded observations, sharded over subprocess workers'}],
        'checks': checks,
        'notes': 'Known findings and fixed defects: known_findings.json. Seeded breaking changes: seeded/. See DESIGN.md.',
        'not_applicable': na,
    }
    with open(os.path.join(V, 'MANIFEST.json'), 'w') as f:
        json.dump(m, f, indent=1); f.write('\n')
    try:
        sys.path.insert(0, '/opt/veriftools/pyvenv/lib/python3.11/site-packages')
        import jsonschema
        jsonschema.validate(m, json.load(open('/root/.vp/MANIFEST.schema.json')))
        print('MANIFEST valid,', len(checks), 'checks,', len(na), 'not claimed')
    except ImportError:
        print('jsonschema not available; not validated')
if __name__ == '__main__':
    main()
