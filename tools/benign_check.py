#!/usr/bin/env python3
"""Runs every quick check against a scratch copy of /repo with a property-preserving ("benign") change applied.
Any exit code other than 0 is a false alarm of ours to analyse. usage: benign_check.py <dir with patch.diff> <id> [checks...]"""
import json, os, shutil, subprocess, sys, time
V = os.path.dirname(os.path.dirname(os.path.abspath(__file__)))
SCRATCH = '/root/scratch/benignrepo-%d' % os.getpid()      # private to this process: several runs may be under way
ALL = ['C%02d' % i for i in range(1, 17)]


def sh(cmd, **kw):
    return subprocess.run(cmd, shell=True, capture_output=True, text=True, **kw)


def main(src, bid, checks):
    dst = os.path.join(V, 'benign', bid)
    os.makedirs(dst, exist_ok=True)
    for f in os.listdir(src):
        if f.endswith(('.diff', '.py', '.md')) and os.path.realpath(src) != os.path.realpath(dst):
            shutil.copy(os.path.join(src, f), os.path.join(dst, f))
    shutil.rmtree(SCRATCH, ignore_errors=True)
    os.makedirs(SCRATCH)
    sh('git -C /repo archive --format=tar HEAD | tar -x -C %s' % SCRATCH)
    # (patch.head.diff: the same change ported by hand after a `fix:` commit rewrote a line it touches)
    pf = 'patch.head.diff' if os.path.exists(os.path.join(dst, 'patch.head.diff')) else 'patch.diff'
    ap = sh('cd %s && patch -p1 < %s/%s' % (SCRATCH, dst, pf))
    meta = {'id': bid, 'kind': 'property-preserving change written by an independent sub-agent', 'applies': ap.returncode == 0}
    if ap.returncode:
        meta['apply_error'] = (ap.stdout + ap.stderr)[-300:]
    else:
        env = dict(os.environ, PYTHONPATH=SCRATCH, PYTHONDONTWRITEBYTECODE='1')
        r = sh('cd %s && /venv/bin/python -m pytest -q -p no:cacheprovider 2>&1 | tail -1' % SCRATCH, env=env)
        meta['suite_with_change'] = r.stdout.strip()
        meta['checks'] = {}
        for c in checks:
            t = time.time()
            r = sh('cd %s && VERIF_REPO=%s /venv/bin/python -m vmon check %s --tier quick' % (V, SCRATCH, c))
            first = [l for l in r.stdout.splitlines() if l.startswith(('  deviation', 'INCONCLUSIVE'))][:2]
            meta['checks'][c] = {'exit': r.returncode, 'wall_s': round(time.time() - t, 1), 'first': [f[:400] for f in first]}
        meta['alarms'] = sorted(c for c, v in meta['checks'].items() if v['exit'] != 0)
    json.dump(meta, open(os.path.join(dst, 'meta.json'), 'w'), indent=1)
    shutil.rmtree(SCRATCH, ignore_errors=True)
    print(bid, 'applies' if meta['applies'] else 'DOES NOT APPLY', meta.get('suite_with_change', '')[:28], 'ALARMS:', meta.get('alarms'))
    for c in meta.get('alarms', []):
        for f in meta['checks'][c]['first']:
            print('   ', c, f[:300])


if __name__ == '__main__':
    main(sys.argv[1], sys.argv[2], sys.argv[3:] or ALL)
