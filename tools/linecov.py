#!/usr/bin/env python3
"""Which lines of segno/*.py do the workloads of the 16 checks execute at all? Runs every quick check with VERIF_LINECOV=1
against a scratch copy of /repo HEAD (sys.monitoring LINE events, each location reported once), unions the executed lines
of all worker processes and lists the executable lines that were never reached - blind spots of the workloads, to be
read and turned into input classes. usage: linecov.py [C01 C02 ...]"""
import dis, glob, json, os, shutil, subprocess, sys, types
V = os.path.dirname(os.path.dirname(os.path.abspath(__file__)))
COPY = '/root/scratch/linecov-repo'
COVDIR = os.path.join(V, 'work', 'linecov')


def executable_lines(path):
    src = open(path).read()
    code = compile(src, path, 'exec')
    lines = set()
    todo = [code]
    while todo:
        c = todo.pop()
        if c.co_flags & 0x1:      # CO_OPTIMIZED: a function body (module and class bodies run at import time)
            for _, _, ln in c.co_lines():
                if ln is not None and ln != c.co_firstlineno:      # (the def line itself raises no LINE event on a call)
                    lines.add(ln)
        for k in c.co_consts:
            if isinstance(k, types.CodeType):
                todo.append(k)
    # a def / class line and docstrings execute at import time, which happens before the monitor is on: only lines inside
    # function bodies are of interest -> drop lines that belong to the module level code object itself
    return lines


def main(checks, report_only=False):
    shutil.rmtree(COPY, ignore_errors=True)
    os.makedirs(COPY)
    subprocess.run('git -C /repo archive --format=tar HEAD | tar -x -C %s' % COPY, shell=True, check=True)
    if not report_only:
        shutil.rmtree(COVDIR, ignore_errors=True)
        env = dict(os.environ, VERIF_REPO=COPY, VERIF_LINECOV='1')
        for c in checks:
            r = subprocess.run(['/venv/bin/python', '-m', 'vmon', 'check', c], cwd=V, env=env, capture_output=True, text=True)
            print(c, 'exit', r.returncode, flush=True)
    seen = set()
    for f in glob.glob(os.path.join(COVDIR, '*.txt')):
        seen.update(l.strip() for l in open(f) if l.strip())
    report = {}
    for mod in ('encoder', 'writers', 'utils', 'helpers', 'cli', '__init__', 'consts'):
        path = os.path.join(COPY, 'segno', mod + '.py')
        ex = executable_lines(path)
        hit = {int(s.split(':')[1]) for s in seen if s.split(':')[0] == mod}
        missed = sorted(ex - hit)
        report[mod] = {'executable': len(ex), 'executed': len(ex & hit), 'never_executed': missed}
        print('%-9s %4d of %4d lines inside functions executed; never: %s' % (mod, len(ex & hit), len(ex), missed[:60]))
    json.dump(report, open(os.path.join(V, 'work', 'linecov-report.json'), 'w'), indent=1)
    shutil.rmtree(COPY, ignore_errors=True)


if __name__ == '__main__':
    ro = '--report-only' in sys.argv
    args = [a for a in sys.argv[1:] if a != '--report-only']
    main(args or ['C%02d' % i for i in range(1, 17)], ro)
