#!/usr/bin/env python3
"""Apply a patch, run the quick (or thorough) checks of the given properties, undo the patch.
usage: trymut.py [-R] [--tier T] [--suite] [--scratch] <patch | seeded/<id> directory> C01 C07 ...
Default: the patch is applied to /repo and undone straight afterwards. With --scratch it is applied to a private copy of
/repo's HEAD under /root/scratch (removed afterwards) and the checks run against that copy (VERIF_REPO) - /repo is not
touched, so this can run next to other jobs that use /repo."""
import subprocess, sys, os, time, shutil
args = sys.argv[1:]
rev = '-R' in args
if rev: args.remove('-R')
suite = '--suite' in args
if suite: args.remove('--suite')
scratch = '--scratch' in args
if scratch: args.remove('--scratch')
tier = 'quick'
if '--tier' in args:
    i = args.index('--tier'); tier = args[i + 1]; del args[i:i + 2]
patch, props = args[0], args[1:]
if os.path.isdir(patch):      # a seeded/<id> directory: the form of the patch that fits HEAD (see reseed.py)
    cand = [os.path.join(patch, n) for n in ('patch.head.diff', 'patch.diff')]
    patch = next((c for c in cand if os.path.exists(c) and subprocess.run(['git', '-C', '/repo', 'apply', '--check', c],
                                                                          capture_output=True).returncode == 0), cand[-1])
patch = os.path.abspath(patch)
env = dict(os.environ)
if scratch:
    target = '/root/scratch/trymut-%d' % os.getpid()
    shutil.rmtree(target, ignore_errors=True)
    os.makedirs(target)
    subprocess.run('git -C /repo archive --format=tar HEAD | tar -x -C %s' % target, shell=True, check=True)
    r = subprocess.run('cd %s && patch -p1 -s %s < %s' % (target, '-R' if rev else '', patch), shell=True, capture_output=True, text=True)
    env['VERIF_REPO'] = target
else:
    target = '/repo'
    st = subprocess.run(['git', '-C', '/repo', 'status', '--porcelain', '--', 'segno'], capture_output=True, text=True).stdout
    if st.strip():
        print('repo not clean:', st); sys.exit(3)
    r = subprocess.run(['git', '-C', '/repo', 'apply'] + (['-R'] if rev else []) + [patch], capture_output=True, text=True)
if r.returncode:
    print('patch does not apply:', (r.stdout + r.stderr)[-400:])
    if scratch: shutil.rmtree(target, ignore_errors=True)
    sys.exit(3)
try:
    if suite:
        r = subprocess.run('cd %s && PYTHONPATH=%s /venv/bin/python -m pytest -q -p no:cacheprovider 2>&1 | tail -1' % (target, target),
                           shell=True, capture_output=True, text=True)
        print('suite:', r.stdout.strip())
    for p in props:
        t = time.time()
        r = subprocess.run(['/venv/bin/python', '-m', 'vmon', 'check', p, '--tier', tier], cwd='/verif', capture_output=True, text=True, env=env)
        lines = [l for l in r.stdout.splitlines() if l.startswith(('VIOLATION', 'INCONCLUSIVE', '  deviation'))]
        print('%s exit=%d %.0fs %s' % (p, r.returncode, time.time() - t, 'CAUGHT' if r.returncode == 1 else ('inconclusive' if r.returncode == 2 else 'MISSED')))
        for l in lines[:6]: print('   ', l[:400])
        if r.returncode not in (0, 1, 2): print(r.stderr[-800:])
finally:
    if scratch:
        shutil.rmtree(target, ignore_errors=True)
    else:
        subprocess.run(['git', '-C', '/repo', 'checkout', '--', 'segno'])
