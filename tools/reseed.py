#!/usr/bin/env python3
"""Keeps the seeded-change corpus usable as a regression suite for the checks themselves.

For every /verif/seeded/<id>/patch.diff
  1. find out whether it still applies to /repo HEAD; if not, try a 3-way apply in a scratch worktree (the repository
     has moved on through `fix:` commits) and store the result as patch.head.diff; a patch that conflicts is marked
     'superseded' (its lines were rewritten by a fix) and keeps its original record only;
  2. (--run) apply the current form to a scratch copy (never to /repo), run the quick checks that caught it when it was
     imported, and record the outcome under meta['recheck'].

usage: reseed.py [--run] [--only ID[,ID..]] [--workers N]
Everything happens under /root/scratch/reseed-*, which is removed at the end."""
import json, os, shutil, subprocess, sys, time
V = os.path.dirname(os.path.dirname(os.path.abspath(__file__)))
WT = '/root/scratch/reseed-wt'
COPY = '/root/scratch/reseed-repo'


def sh(cmd, **kw):
    return subprocess.run(cmd, shell=True, capture_output=True, text=True, **kw)


def head():
    return sh('git -C /repo rev-parse --short HEAD').stdout.strip()


def current_patch(d):
    """Path of the form of the patch that applies to HEAD, or None."""
    for name in ('patch.head.diff', 'patch.diff'):
        p = os.path.join(d, name)
        if os.path.exists(p) and sh('git -C /repo apply --check %s' % p).returncode == 0:
            return p
    return None


def refresh(d):
    p = current_patch(d)
    if p:
        return p, 'applies'
    sh('git -C /repo worktree remove --force %s' % WT)
    shutil.rmtree(WT, ignore_errors=True)
    r = sh('git -C /repo worktree add -q --detach %s HEAD' % WT)
    if r.returncode:
        return None, 'worktree failed: ' + r.stderr[-200:]
    try:
        r = sh('git -C %s apply --3way %s' % (WT, os.path.join(d, 'patch.diff')))
        conflict = r.returncode != 0 or bool(sh('git -C %s diff --name-only --diff-filter=U' % WT).stdout.strip())
        if conflict:
            return None, 'superseded (3-way apply conflicts with later fix commits)'
        diff = sh('git -C %s diff HEAD -- segno' % WT).stdout
        if not diff.strip():
            return None, 'superseded (empty after 3-way apply)'
        out = os.path.join(d, 'patch.head.diff')
        open(out, 'w').write(diff)
        return out, 'ported by 3-way apply'
    finally:
        sh('git -C /repo worktree remove --force %s' % WT)
        shutil.rmtree(WT, ignore_errors=True)


def recheck(d, meta, patch):
    shutil.rmtree(COPY, ignore_errors=True)
    sh('mkdir -p /root/scratch && git -C /repo archive --format=tar --prefix=reseed-repo/ HEAD | tar -x -C /root/scratch')
    try:
        r = sh('cd %s && patch -p1 < %s' % (COPY, patch))
        if r.returncode:
            return {'error': 'patch(1) failed: ' + (r.stdout + r.stderr)[-200:]}
        checks = meta.get('recheck_with') or meta.get('caught_by') or sorted(meta.get('checks', {}))
        res = {}
        # does the change still break anything on this HEAD? (a later fix may have made it harmless)
        demo = os.path.join(d, 'demo.py')
        demo_exit = None
        if os.path.exists(demo):
            env = dict(os.environ, PYTHONPATH=COPY, PYTHONDONTWRITEBYTECODE='1')
            try:
                demo_exit = subprocess.run(['/venv/bin/python', demo], cwd='/tmp', env=env, capture_output=True, timeout=900).returncode
            except subprocess.TimeoutExpired:
                demo_exit = 'timeout'
        for c in checks:
            t = time.time()
            r = sh('cd %s && VERIF_REPO=%s /venv/bin/python -m vmon check %s --tier quick' % (V, COPY, c))
            res[c] = {'exit': r.returncode, 'wall_s': round(time.time() - t, 1)}
        return {'head': head(), 'patch': os.path.basename(patch), 'checks': res, 'demo_exit_with_change': demo_exit,
                'caught_by': sorted(c for c, v in res.items() if v['exit'] == 1)}
    finally:
        shutil.rmtree(COPY, ignore_errors=True)


def main(argv):
    run = '--run' in argv
    key = 'recheck'
    if '--seed' in argv:      # the same regression under another workload seed: is a detection seed-dependent?
        os.environ['VERIF_SEED'] = argv[argv.index('--seed') + 1]
        key = 'recheck_seed_' + os.environ['VERIF_SEED']
    only = None
    if '--only' in argv:
        only = set(argv[argv.index('--only') + 1].split(','))
    summary = {'head': head(), 'applies': 0, 'ported': 0, 'superseded': [], 'rechecked': 0, 'lost': []}
    for sid in sorted(os.listdir(os.path.join(V, 'seeded'))):
        d = os.path.join(V, 'seeded', sid)
        mp = os.path.join(d, 'meta.json')
        if not os.path.isdir(d) or not os.path.exists(mp) or (only and sid not in only):
            continue
        meta = json.load(open(mp))
        patch, how = refresh(d)
        meta['head_status'] = {'head': head(), 'status': how}
        if patch is None:
            summary['superseded'].append(sid)
        else:
            summary['applies' if how == 'applies' else 'ported'] += 1
            if run:
                meta[key] = recheck(d, meta, patch)
                summary['rechecked'] += 1
                if not meta[key].get('caught_by'):
                    if meta[key].get('demo_exit_with_change') == 0:
                        summary.setdefault('neutralised_by_later_fix', []).append(sid)
                    else:
                        summary['lost'].append(sid)
                print(sid, how, key, 'caught by:', meta[key].get('caught_by'), flush=True)
        json.dump(meta, open(mp, 'w'), indent=1)
    print(json.dumps(summary))


if __name__ == '__main__':
    main(sys.argv[1:])
