"""Independent colour parser for the output oracles (imports nothing from segno).
Only a subset of the CSS colour names is known here; the workloads draw names
from NAMES only. The table was cross-checked once against segno's table."""

NAMES = {
    'black': (0, 0, 0), 'white': (255, 255, 255), 'red': (255, 0, 0), 'lime': (0, 255, 0), 'blue': (0, 0, 255),
    'yellow': (255, 255, 0), 'cyan': (0, 255, 255), 'aqua': (0, 255, 255), 'magenta': (255, 0, 255),
    'fuchsia': (255, 0, 255), 'silver': (192, 192, 192), 'gray': (128, 128, 128), 'grey': (128, 128, 128),
    'maroon': (128, 0, 0), 'olive': (128, 128, 0), 'green': (0, 128, 0), 'purple': (128, 0, 128),
    'teal': (0, 128, 128), 'navy': (0, 0, 128), 'orange': (255, 165, 0), 'darkblue': (0, 0, 139),
    'darkred': (139, 0, 0), 'gold': (255, 215, 0), 'pink': (255, 192, 203), 'brown': (165, 42, 42),
    'indigo': (75, 0, 130), 'violet': (238, 130, 238), 'coral': (255, 127, 80), 'salmon': (250, 128, 114),
    'khaki': (240, 230, 140), 'crimson': (220, 20, 60), 'chocolate': (210, 105, 30), 'tomato': (255, 99, 71),
    'orchid': (218, 112, 214), 'plum': (221, 160, 221), 'beige': (245, 245, 220), 'ivory': (255, 255, 240),
    'lavender': (230, 230, 250), 'turquoise': (64, 224, 208), 'tan': (210, 180, 140), 'skyblue': (135, 206, 235),
    'steelblue': (70, 130, 180), 'firebrick': (178, 34, 34),
    # the first names of the CSS table (an encoder that needs a spare colour is likely to pick from the start of its table)
    'aliceblue': (240, 248, 255), 'antiquewhite': (250, 235, 215), 'aquamarine': (127, 255, 212), 'azure': (240, 255, 255),
    'yellowgreen': (154, 205, 50), 'whitesmoke': (245, 245, 245),
}


class BadColor(Exception):
    pass


def parse(color):
    """-> (r, g, b, a) with a in 0..255 (float alpha 0..1 is scaled, kept as float if not integral);
    None stays None (= transparent)."""
    if color is None:
        return None
    if isinstance(color, tuple):
        if len(color) not in (3, 4) or any(not (0 <= c <= 255) for c in color[:3]):
            raise BadColor(color)
        a = 255
        if len(color) == 4:
            a = color[3]
            if isinstance(a, float):
                if not 0 <= a <= 1:
                    raise BadColor(color)
                a = a * 255
            elif not 0 <= a <= 255:
                raise BadColor(color)
        return tuple(color[:3]) + (a,)
    if not isinstance(color, str):
        raise BadColor(color)
    low = color.lower()
    if low in NAMES:
        return NAMES[low] + (255,)
    h = color[1:] if color.startswith('#') else color
    if len(h) in (3, 4):
        h = ''.join(c * 2 for c in h)
    if len(h) not in (6, 8):
        raise BadColor(color)
    try:
        vals = tuple(int(h[i:i + 2], 16) for i in range(0, len(h), 2))
    except ValueError:
        raise BadColor(color)
    if len(vals) == 3:
        vals += (255,)
    return vals


def web_to_rgba(s, opacity=None):
    """Parses what an SVG writer may emit as a colour (name, #rgb, #rrggbb,
    rgba(r,g,b,a)) -> (r, g, b, alpha as float 0..1)."""
    import re
    s = s.strip()
    m = re.match(r'^rgba\(\s*(\d+)\s*,\s*(\d+)\s*,\s*(\d+)\s*,\s*([0-9.]+)\s*\)$', s)
    if m:
        return (int(m.group(1)), int(m.group(2)), int(m.group(3)), float(m.group(4)))
    r, g, b, _ = parse(s)
    return (r, g, b, 1.0 if opacity is None else float(opacity))
