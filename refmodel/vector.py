# Prototype interpreters for SVG / EPS / PDF / TikZ output -> set of covered unit squares (module grid)
import re, zlib, io, math
import xml.etree.ElementTree as ET

class Bad(Exception): pass

def _cover(segments, lw, page, tol=1e-6):
    """segments: list of (x1, y, x2) horizontal stroked lines in page units with y at centre, top-left origin.
    lw: line width in page units (= module size). Returns (set of (row, col) covered, problems)"""
    cells = {}
    probs = []
    s = lw
    for (x1, y, x2) in segments:
        if x2 < x1: x1, x2 = x2, x1
        r = (y - s / 2) / s
        c1 = x1 / s; c2 = x2 / s
        if abs(r - round(r)) > 1e-6 or abs(c1 - round(c1)) > 1e-6 or abs(c2 - round(c2)) > 1e-6:
            probs.append(('off-grid', x1, y, x2)); continue
        r = int(round(r))
        for c in range(int(round(c1)), int(round(c2))):
            cells[(r, c)] = cells.get((r, c), 0) + 1
        if x1 < -tol or x2 > page + tol or y - s/2 < -tol or y + s/2 > page + tol:
            probs.append(('outside-page', x1, y, x2))
    return cells, probs

def read_svg(data):
    root = ET.fromstring(data)
    ns = ''
    tag = root.tag
    if tag.startswith('{'):
        ns = tag[:tag.index('}') + 1]
    def num(v):
        m = re.match(r'^([0-9.]+)([a-z%]*)$', v)
        return float(m.group(1)), m.group(2)
    info = {'ns': ns, 'attrs': dict(root.attrib)}
    vb = root.get('viewBox')
    if root.get('width') is not None:
        w, unit = num(root.get('width')); h, _ = num(root.get('height'))
        info['page'] = (w, h)
    if vb:
        info['viewBox'] = tuple(float(x) for x in vb.split())
        info.setdefault('page', info['viewBox'][2:])
    paths = []
    def walk(el, scale):
        for ch in el:
            t = ch.tag[len(ns):] if ns else ch.tag
            tr = ch.get('transform')
            sc = scale
            if tr:
                m = re.match(r'^scale\(([0-9.]+)\)$', tr)
                if not m: raise Bad('transform ' + tr)
                sc = scale * float(m.group(1))
            if t == 'g': walk(ch, sc)
            elif t == 'path': paths.append((ch, sc))
            elif t in ('title', 'desc'): info[t] = ch.text
            else: raise Bad('element ' + t)
    walk(root, 1.0)
    out = []
    for el, sc in paths:
        d = el.get('d')
        toks = re.findall(r'[MmhvzlL]|-?[0-9]*\.?[0-9]+', d)
        i = 0; x = y = 0.0; segs = []; fillrect = None; closed = False
        start = None
        pts = []
        while i < len(toks):
            t = toks[i]
            if t in 'Mm':
                nx, ny = float(toks[i+1]), float(toks[i+2]); i += 3
                if t == 'M': x, y = nx, ny
                else: x, y = x + nx, y + ny
                start = (x, y); pts = [(x, y)]
            elif t == 'h':
                dx = float(toks[i+1]); i += 2
                segs.append((x, y, x + dx)); x += dx; pts.append((x, y))
            elif t == 'v':
                dy = float(toks[i+1]); i += 2
                y += dy; pts.append((x, y))
            elif t == 'z':
                closed = True; i += 1
            else: raise Bad('path cmd ' + t)
        out.append(dict(stroke=el.get('stroke'), fill=el.get('fill'), stroke_opacity=el.get('stroke-opacity'), fill_opacity=el.get('fill-opacity'),
                        cls=el.get('class'), scale=sc, segs=segs, pts=pts, closed=closed))
    info['paths'] = out
    return info

def read_eps(text):
    lines = text.split('\n')
    if not lines[0].startswith('%!PS-Adobe-3.0 EPSF-3.0'): raise Bad('header')
    bb = None
    for l in lines:
        if l.startswith('%%BoundingBox:'): bb = [float(x) for x in l.split()[1:]]
    body = ' '.join(l for l in lines if not l.startswith('%'))
    toks = body.split()
    stack = []; x = y = None; sc = 1.0; color = (0.0, 0.0, 0.0); bg = None
    segs = []; stroked = False
    i = 0
    defs = {'m': 'rmoveto', 'l': 'rlineto'}
    while i < len(toks):
        t = toks[i]; i += 1
        if t == '/m' or t == '/l':
            # /m { rmoveto } bind def
            i += 5; continue
        t = defs.get(t, t)
        if re.match(r'^-?[0-9.]+$', t): stack.append(float(t)); continue
        if t == 'setrgbcolor': b = stack.pop(); g = stack.pop(); r = stack.pop(); color = (r, g, b)
        elif t == 'clippath': pass
        elif t == 'fill': bg = color
        elif t == 'scale': sy = stack.pop(); sx = stack.pop(); assert sx == sy; sc *= sx
        elif t == 'newpath': pass
        elif t == 'moveto': y = stack.pop(); x = stack.pop()
        elif t == 'rmoveto': dy = stack.pop(); dx = stack.pop(); x += dx; y += dy
        elif t == 'rlineto':
            dy = stack.pop(); dx = stack.pop()
            if dy != 0: raise Bad('non horizontal')
            segs.append((x, y, x + dx)); x += dx
        elif t == 'stroke': stroked = True; stroke_color = color
        else: raise Bad('op ' + t)
    if not stroked: raise Bad('no stroke')
    return dict(bbox=bb, scale=sc, segs=segs, color=stroke_color, bg=bg)

def read_pdf(data):
    if not data.startswith(b'%PDF-1.'): raise Bad('header')
    sx = re.search(rb'startxref\r\n(\d+)\r\n%%EOF\r\n$', data)
    if not sx: raise Bad('startxref')
    xpos = int(sx.group(1))
    if data[xpos:xpos+4] != b'xref': raise Bad('xref pos')
    m = re.match(rb'xref\r\n0 (\d+)\r\n', data[xpos:])
    n = int(m.group(1)); p = xpos + m.end()
    entries = []
    for k in range(n):
        e = data[p:p+20]; p += 20
        mm = re.match(rb'^(\d{10}) (\d{5}) ([nf])\r\n$', e)
        if not mm: raise Bad('xref entry %r' % e)
        entries.append((int(mm.group(1)), mm.group(3)))
    defined = {int(mo.group(1)): mo.start() for mo in re.finditer(rb'(?<![0-9])(\d+) 0 obj', data)}
    probs = []
    for num, pos in defined.items():
        if num >= len(entries) or entries[num][1] != b'n' or entries[num][0] != pos:
            probs.append(('xref-offset', num, pos, entries[num] if num < len(entries) else None))
    mb = re.search(rb'/MediaBox \[([^\]]+)\]', data)
    media = [float(x) for x in mb.group(1).split()]
    ms = re.search(rb'/Length (\d+) /Filter /FlateDecode>>\r\nstream\r\n', data)
    ln = int(ms.group(1)); st = ms.end()
    if data[st+ln:st+ln+11] != b'\r\nendstream': probs.append(('length', ln))
    content = zlib.decompress(data[st:st+ln]).decode('ascii')
    toks = content.split()
    stack = []; ctm = [1, 0, 0, 1, 0, 0]; segs = []; cur = None; bg = None; fillc = (0,0,0); strokec = (0,0,0); rect = None
    def mul(m, c):  # c = m x c (pre-multiply: new transform applied in current user space)
        a, b, cc, d, e, f = m; A, B, C, D, E, F = c
        return [a*A + b*C, a*B + b*D, cc*A + d*C, cc*B + d*D, e*A + f*C + E, e*B + f*D + F]
    def tp(x, y):
        a, b, c, d, e, f = ctm
        return (a*x + c*y + e, b*x + d*y + f)
    for t in toks:
        if re.match(r'^-?[0-9.]+$', t): stack.append(float(t)); continue
        if t == 'cm': m6 = stack[-6:]; del stack[-6:]; ctm = mul(m6, ctm)
        elif t == 'rg': fillc = tuple(stack[-3:]); del stack[-3:]
        elif t == 'RG': strokec = tuple(stack[-3:]); del stack[-3:]
        elif t == 're': rect = stack[-4:]; del stack[-4:]; rect = (tp(rect[0], rect[1]), tp(rect[0]+rect[2], rect[1]+rect[3]))
        elif t == 'f': bg = (fillc, rect)
        elif t == 'q': pass
        elif t == 'm': y = stack.pop(); x = stack.pop(); cur = (x, y)
        elif t == 'l':
            y = stack.pop(); x = stack.pop()
            if y != cur[1]: raise Bad('non horizontal')
            p1 = tp(*cur); p2 = tp(x, y); segs.append((p1[0], p1[1], p2[0])); cur = (x, y)
        elif t == 'S': pass
        else: raise Bad('op ' + t)
    lw = abs(ctm[0])  # default line width 1 user unit
    return dict(media=media, segs=segs, lw=lw, bg=bg, stroke=strokec, problems=probs, endobj=data.count(b'endobj'))

def read_tex(text):
    lw = float(re.search(r'\\pgfsetlinewidth\{([0-9.]+)([a-z]*)\}', text).group(1))
    pts = re.findall(r'\\pgfpath(moveto|lineto)\{\\pgfqpoint\{(-?[0-9.]+)([a-zA-Z]*)\}\{(-?[0-9.]+)([a-zA-Z]*)\}\}', text)
    segs = []; cur = None; units = set()
    for kind, x, ux, y, uy in pts:
        units.add(ux); units.add(uy)
        if kind == 'moveto': cur = (float(x), float(y))
        else:
            if float(y) != cur[1]: raise Bad('non horizontal')
            segs.append((cur[0], cur[1], float(x)))
    color = re.search(r'\\color\{([^}]*)\}', text)
    return dict(lw=lw, segs=segs, units=units, color=color.group(1) if color else None)
