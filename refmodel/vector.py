"""Mini-interpreters for the vector outputs (SVG, EPS, PDF, PGF/TikZ). Each returns
the page box and the stroked horizontal line segments in *page units* with a
top-left origin (x1, y_centre, x2, line_width, colour), after applying the
document's own transforms, plus background fills. Imports nothing from segno."""
import re
import xml.etree.ElementTree as ET
import zlib

NUM = r'[-+]?(?:\d+\.?\d*|\.\d+)(?:[eE][-+]?\d+)?'


class Bad(Exception):
    pass


# ------------------------------------------------------------------------ SVG
def read_svg(data):
    """data: bytes of a complete SVG document."""
    try:
        root = ET.fromstring(data)
    except ET.ParseError as ex:
        raise Bad('XML not well-formed: %s' % ex)
    ns = ''
    tag = root.tag
    if tag.startswith('{'):
        ns = tag[:tag.index('}') + 1]
        tag = tag[len(ns):]
    if tag != 'svg':
        raise Bad('root element %s' % tag)
    if ns and ns != '{http://www.w3.org/2000/svg}':
        raise Bad('namespace %s' % ns)
    info = {'ns': ns, 'attrs': dict(root.attrib), 'title': None, 'desc': None}

    def dim(v):
        m = re.match(r'^(%s)([a-z%%]*)$' % NUM, v)
        if not m:
            raise Bad('dimension %r' % v)
        return float(m.group(1)), m.group(2)

    page = None
    if root.get('width') is not None or root.get('height') is not None:
        if root.get('width') is None or root.get('height') is None:
            raise Bad('only one of width/height')
        w, uw = dim(root.get('width'))
        h, uh = dim(root.get('height'))
        if uw != uh:
            raise Bad('different units')
        page = (w, h)
        info['unit'] = uw
    vb = root.get('viewBox')
    if vb is not None:
        parts = vb.split()
        if len(parts) != 4:
            raise Bad('viewBox %r' % vb)
        vbx = tuple(float(x) for x in parts)
        if vbx[0] != 0 or vbx[1] != 0:
            raise Bad('viewBox origin %r' % vb)
        info['viewBox'] = vbx
        if page is not None and (abs(page[0] - vbx[2]) > 1e-9 * max(1, vbx[2]) or abs(page[1] - vbx[3]) > 1e-9 * max(1, vbx[3])):
            raise Bad('viewBox %r differs from width/height %r' % (vbx, page))
        page = vbx[2:]
    if page is None:
        raise Bad('neither width/height nor viewBox')
    info['page'] = page
    paths = []
    rects = []

    def walk(el, scale, depth):
        for ch in el:
            t = ch.tag[len(ns):] if ns and ch.tag.startswith(ns) else ch.tag
            tr = ch.get('transform')
            sc = scale
            if tr is not None:
                m = re.match(r'^scale\(\s*(%s)(?:[\s,]+(%s))?\s*\)$' % (NUM, NUM), tr.strip())
                if not m or (m.group(2) is not None and float(m.group(2)) != float(m.group(1))):
                    raise Bad('transform %r' % tr)
                sc = scale * float(m.group(1))
            if t == 'g':
                walk(ch, sc, depth + 1)
            elif t == 'path':
                paths.append((ch, sc))
            elif t == 'rect':
                rects.append((ch, sc))
            elif t in ('title', 'desc') and depth == 0:
                info[t] = ch.text or ''
            else:
                raise Bad('unexpected element %s' % t)
    walk(root, 1.0, 0)
    out = []
    for el, sc in paths:
        d = el.get('d')
        if d is None:
            raise Bad('path without d')
        toks = re.findall(r'[A-Za-z]|%s' % NUM, d)
        if ''.join(toks) != re.sub(r'[\s,]+', '', d):
            raise Bad('path data %r' % d[:40])
        i = 0
        x = y = 0.0
        segs = []
        pts = []
        closed = False
        nonhorizontal = False
        try:
            while i < len(toks):
                t = toks[i]
                if t in 'Mm':
                    nx, ny = float(toks[i + 1]), float(toks[i + 2])
                    i += 3
                    if t == 'M' or not pts and not segs:
                        x, y = nx, ny
                    else:
                        x, y = x + nx, y + ny
                    pts.append((x, y))
                elif t in 'hH':
                    nx = float(toks[i + 1])
                    i += 2
                    nx = nx if t == 'H' else x + nx
                    segs.append((x, y, nx))
                    x = nx
                    pts.append((x, y))
                elif t in 'vV':
                    ny = float(toks[i + 1])
                    i += 2
                    y = ny if t == 'V' else y + ny
                    nonhorizontal = True
                    pts.append((x, y))
                elif t in 'lL':
                    nx, ny = float(toks[i + 1]), float(toks[i + 2])
                    i += 3
                    if t == 'l':
                        nx, ny = x + nx, y + ny
                    if ny == y:
                        segs.append((x, y, nx))
                    else:
                        nonhorizontal = True
                    x, y = nx, ny
                    pts.append((x, y))
                elif t in 'zZ':
                    closed = True
                    i += 1
                else:
                    raise Bad('path command %r' % t)
        except (IndexError, ValueError):
            raise Bad('path data truncated %r' % d[-30:])
        if nonhorizontal and el.get('fill') in (None, 'none'):
            raise Bad('stroked path with non-horizontal segments (this reader rasterises horizontal strokes only)')
        out.append({'stroke': el.get('stroke'), 'fill': el.get('fill') if el.get('fill') != 'none' else None,
                    'stroke_opacity': el.get('stroke-opacity'),
                    'fill_opacity': el.get('fill-opacity'), 'cls': el.get('class'), 'scale': sc,
                    'segs': segs, 'pts': pts, 'closed': closed, 'stroke_width': el.get('stroke-width')})
    for el, sc in rects:
        try:
            x0 = float(el.get('x', '0'))
            y0 = float(el.get('y', '0'))
            rw = float(re.match(NUM, el.get('width')).group(0))
            rh = float(re.match(NUM, el.get('height')).group(0))
        except (TypeError, AttributeError, ValueError):
            raise Bad('rect geometry')
        if el.get('width', '').endswith('%'):
            rw = info['page'][0] * rw / 100.0 / sc
        if el.get('height', '').endswith('%'):
            rh = info['page'][1] * rh / 100.0 / sc
        out.insert(0, {'stroke': None, 'fill': el.get('fill', 'black'), 'stroke_opacity': None,
                       'fill_opacity': el.get('fill-opacity'), 'cls': el.get('class'), 'scale': sc, 'segs': [],
                       'pts': [(x0, y0), (x0 + rw, y0), (x0 + rw, y0 + rh), (x0, y0 + rh)], 'closed': True,
                       'stroke_width': None, 'rect': True})
    info['paths'] = out
    return info


# ------------------------------------------------------------------------ EPS
def read_eps(text):
    lines = text.split('\n')
    if not lines[0].startswith('%!PS-Adobe-3.0 EPSF-3.0'):
        raise Bad('EPS header line')
    if any(len(l) > 255 for l in lines):
        raise Bad('line longer than 255 characters')
    bb = None
    for l in lines:
        if l.startswith('%%BoundingBox:'):
            try:
                bb = [float(x) for x in l.split()[1:]]
            except ValueError:
                raise Bad('BoundingBox %r' % l)
    if bb is None or len(bb) != 4:
        raise Bad('no BoundingBox')
    if lines[-1] != '' or lines[-2] != '%%EOF':
        raise Bad('no %%EOF trailer')
    body = ' '.join(l for l in lines if not l.startswith('%'))
    toks = body.split()
    stack = []
    x = y = None
    sc = 1.0
    color = (0.0, 0.0, 0.0)
    bg = None
    segs = []
    stroke_color = None
    defs = {}
    i = 0
    pending = []   # segments of the current path
    try:
        while i < len(toks):
            t = toks[i]
            i += 1
            if t.startswith('/') and toks[i] == '{':
                j = toks.index('}', i)
                body_ops = toks[i + 1:j]
                if toks[j + 1:j + 3] != ['bind', 'def'] or len(body_ops) != 1:
                    raise Bad('definition %s' % t)
                defs[t[1:]] = body_ops[0]
                i = j + 3
                continue
            t = defs.get(t, t)
            if re.match(r'^%s$' % NUM, t):
                stack.append(float(t))
            elif t == 'setrgbcolor':
                b = stack.pop()
                g = stack.pop()
                r = stack.pop()
                if not all(0 <= c <= 1 for c in (r, g, b)):
                    raise Bad('setrgbcolor out of range')
                color = (r, g, b)
            elif t == 'clippath':
                pass
            elif t == 'fill':
                bg = color
            elif t == 'scale':
                sy = stack.pop()
                sx = stack.pop()
                if sx != sy:
                    raise Bad('anisotropic scale')
                sc *= sx
            elif t == 'newpath':
                pending = []
                x = y = None
            elif t == 'moveto':
                y = stack.pop()
                x = stack.pop()
            elif t == 'rmoveto':
                dy = stack.pop()
                dx = stack.pop()
                x += dx
                y += dy
            elif t == 'rlineto':
                dy = stack.pop()
                dx = stack.pop()
                if dy != 0:
                    raise Bad('non-horizontal line')
                pending.append((x, y, x + dx))
                x += dx
            elif t == 'lineto':
                ny = stack.pop()
                nx = stack.pop()
                if ny != y:
                    raise Bad('non-horizontal line')
                pending.append((x, y, nx))
                x = nx
            elif t == 'setgray':
                g = stack.pop()
                if not 0 <= g <= 1:
                    raise Bad('setgray out of range')
                color = (g, g, g)
            elif t == 'setlinewidth':
                lw = stack.pop()
                if lw != 1:
                    raise Bad('line width %r (this reader assumes the default width 1)' % lw)
            elif t in ('gsave', 'grestore', 'showpage', 'closepath'):
                pass
            elif t == 'stroke':
                stroke_color = color
                segs.extend(pending)
                pending = []
            else:
                raise Bad('operator %r' % t)
    except (IndexError, TypeError, ValueError) as ex:
        raise Bad('PostScript stack/parse error: %s' % ex)
    if stack:
        raise Bad('operands left on the stack')
    if pending:
        raise Bad('path never stroked')
    return {'bbox': bb, 'scale': sc, 'segs': segs, 'color': stroke_color, 'bg': bg}


# ------------------------------------------------------------------------ PDF
def read_pdf(data):
    if not data.startswith(b'%PDF-1.'):
        raise Bad('PDF header')
    sx = re.search(rb'startxref\r?\n(\d+)\r?\n%%EOF\r?\n?$', data)
    if not sx:
        raise Bad('startxref / %%EOF')
    xpos = int(sx.group(1))
    if data[xpos:xpos + 4] != b'xref':
        raise Bad('startxref does not point at xref')
    m = re.match(rb'xref\r?\n0 (\d+)\r?\n', data[xpos:])
    if not m:
        raise Bad('xref subsection header')
    n = int(m.group(1))
    p = xpos + m.end()
    entries = []
    for _ in range(n):
        e = data[p:p + 20]
        p += 20
        mm = re.match(rb'^(\d{10}) (\d{5}) ([nf])(?: \r| \n|\r\n)$', e)
        if not mm:
            raise Bad('xref entry %r' % e)
        entries.append((int(mm.group(1)), mm.group(3)))
    tr = re.match(rb'trailer\s*<<(.*?)>>', data[p:], re.S)
    if not tr:
        raise Bad('trailer')
    msize = re.search(rb'/Size (\d+)', tr.group(1))
    mroot = re.search(rb'/Root (\d+) 0 R', tr.group(1))
    if not msize or int(msize.group(1)) != n or not mroot:
        raise Bad('trailer /Size or /Root')
    defined = {}
    for mo in re.finditer(rb'(?<![0-9])(\d+) 0 obj', data):
        defined.setdefault(int(mo.group(1)), mo.start())
    problems = []
    for num, pos in sorted(defined.items()):
        if num >= len(entries) or entries[num][1] != b'n' or entries[num][0] != pos:
            problems.append(('xref-offset', num, pos, entries[num][0] if num < len(entries) else None))
    if entries and (entries[0][1] != b'f'):
        problems.append(('xref-entry-0-not-free',))
    # object graph: catalog -> pages -> page -> contents
    def obj_body(num):
        if num not in defined:
            raise Bad('object %d not defined' % num)
        st = defined[num]
        return data[st:]
    cat = obj_body(int(mroot.group(1)))
    mp = re.search(rb'/Type /Catalog /Pages (\d+) 0 R', cat[:200])
    if not mp:
        raise Bad('catalog')
    pages = obj_body(int(mp.group(1)))
    mk = re.search(rb'/Type /Pages /Kids \[(\d+) 0 R\] /Count 1', pages[:200])
    if not mk:
        raise Bad('pages')
    page = obj_body(int(mk.group(1)))
    mb = re.search(rb'/MediaBox \[([^\]]+)\]', page[:300])
    mc = re.search(rb'/Contents (\d+) 0 R', page[:300])
    if not mb or not mc:
        raise Bad('page object')
    try:
        media = [float(v) for v in mb.group(1).split()]
    except ValueError:
        raise Bad('MediaBox')
    cont = obj_body(int(mc.group(1)))
    ms = re.match(rb'\d+ 0 obj <</Length (\d+) /Filter /FlateDecode>>\r?\nstream\r?\n', cont)
    if not ms:
        raise Bad('content stream dictionary')
    ln = int(ms.group(1))
    st = ms.end()
    raw = cont[st:st + ln]
    after = cont[st + ln:st + ln + 20]
    if not re.match(rb'\r?\nendstream\r?\nendobj', after):
        problems.append(('stream-length', ln))
        # recover the real extent for the geometry check
        e = cont.find(b'endstream', st)
        raw = cont[st:e].rstrip(b'\r\n')
    try:
        d = zlib.decompressobj()
        content = d.decompress(raw) + d.flush()
        if not d.eof:
            raise Bad('content stream truncated')
        if d.unused_data:
            problems.append(('stream-length', ln, 'bytes after the end of the deflate stream: %r' % d.unused_data[:8]))
    except zlib.error as ex:
        raise Bad('content stream does not inflate: %s' % ex)
    try:
        content = content.decode('ascii')
    except UnicodeDecodeError:
        raise Bad('content stream not ASCII')
    toks = content.split()
    stack = []
    ctm = [1.0, 0.0, 0.0, 1.0, 0.0, 0.0]
    segs = []
    pending = []
    cur = None
    bg = None
    fillc = (0.0, 0.0, 0.0)
    strokec = (0.0, 0.0, 0.0)
    stroke_used = None
    rect = None
    lw_ctm = None

    def mul(mm, c):
        a, b, cc, dd, e, f = mm
        A, B, C, D, E, F = c
        return [a * A + b * C, a * B + b * D, cc * A + dd * C, cc * B + dd * D, e * A + f * C + E, e * B + f * D + F]

    def tp(px, py):
        a, b, c, dd, e, f = ctm
        return (a * px + c * py + e, b * px + dd * py + f)
    try:
        for t in toks:
            if re.match(r'^%s$' % NUM, t):
                stack.append(float(t))
                continue
            if t == 'cm':
                m6 = stack[-6:]
                del stack[-6:]
                if len(m6) != 6:
                    raise Bad('cm operands')
                ctm = mul(m6, ctm)
            elif t == 'rg':
                fillc = tuple(stack[-3:])
                del stack[-3:]
            elif t == 'RG':
                strokec = tuple(stack[-3:])
                del stack[-3:]
            elif t == 're':
                r4 = stack[-4:]
                del stack[-4:]
                rect = (tp(r4[0], r4[1]), tp(r4[0] + r4[2], r4[1] + r4[3]))
            elif t == 'f':
                if rect is None:
                    raise Bad('f without path')
                bg = (fillc, rect)
                rect = None
            elif t in ('q', 'Q', 'n', 'h'):
                pass
            elif t == 'g':
                g = stack.pop()
                fillc = (g, g, g)
            elif t == 'G':
                g = stack.pop()
                strokec = (g, g, g)
            elif t == 'w':
                lw = stack.pop()
                if lw != 1:
                    raise Bad('line width %r (this reader assumes the default width 1)' % lw)
            elif t == 'm':
                py = stack.pop()
                px = stack.pop()
                cur = (px, py)
            elif t == 'l':
                py = stack.pop()
                px = stack.pop()
                if py != cur[1]:
                    raise Bad('non-horizontal line')
                p1 = tp(*cur)
                p2 = tp(px, py)
                pending.append((p1[0], p1[1], p2[0]))
                cur = (px, py)
            elif t == 'S':
                segs.extend(pending)
                pending = []
                stroke_used = strokec
                lw_ctm = abs(ctm[0])
            else:
                raise Bad('operator %r' % t)
    except (IndexError, TypeError) as ex:
        raise Bad('content stream stack error: %s' % ex)
    if stack or pending:
        raise Bad('content stream ends with unused operands / unpainted path')
    return {'media': media, 'segs': segs, 'lw': lw_ctm if lw_ctm is not None else 1.0, 'bg': bg, 'stroke': stroke_used,
            'problems': problems, 'n_objects': len(defined), 'ctm': ctm}


# ----------------------------------------------------------------------- TikZ
def read_tex(text):
    if '\\begin{pgfpicture}' not in text or '\\end{pgfpicture}' not in text:
        raise Bad('no pgfpicture environment')
    body = text[text.index('\\begin{pgfpicture}'):text.index('\\end{pgfpicture}')]
    if body.count('{') != body.count('}'):
        raise Bad('unbalanced braces')
    m = re.search(r'\\pgfsetlinewidth\{(%s)([a-zA-Z]*)\}' % NUM, body)
    if not m:
        raise Bad('no \\pgfsetlinewidth')
    lw = float(m.group(1))
    unit = m.group(2)
    segs = []
    cur = None
    units = {unit}
    n_cmds = 0
    for mm in re.finditer(r'\\pgfpath(moveto|lineto)\{\\pgfqpoint\{(%s)([a-zA-Z]*)\}\{(%s)([a-zA-Z]*)\}\}' % (NUM, NUM), body):
        n_cmds += 1
        kind, x, ux, y, uy = mm.groups()
        units.update((ux, uy))
        if kind == 'moveto':
            cur = (float(x), float(y))
        else:
            if cur is None or float(y) != cur[1]:
                raise Bad('lineto without moveto / non-horizontal')
            segs.append((cur[0], cur[1], float(x)))
            cur = None
    if n_cmds != body.count('\\pgfpath'):
        raise Bad('unparsed \\pgfpath command')
    if len(units) != 1:
        raise Bad('mixed units %r' % sorted(units))
    if '\\pgfusepath{stroke}' not in body:
        raise Bad('path never stroked')
    color = re.search(r'\\color\{([^}]*)\}', body)
    href = re.search(r'\\href\{([^}]*)\}\{', text)
    return {'lw': lw, 'unit': unit, 'segs': segs, 'color': color.group(1) if color else None,
            'url': href.group(1) if href else None}


# -------------------------------------------------------------------- coverage
def cover(segments, lw, tol=1e-6):
    """segments: (x1, y_centre, x2) in page units, top-left origin, stroke width lw.
    -> ({(row, col): times covered}, problems)"""
    cells = {}
    probs = []
    for (x1, y, x2) in segments:
        if x2 < x1:
            x1, x2 = x2, x1
        r = (y - lw / 2) / lw
        c1 = x1 / lw
        c2 = x2 / lw
        if abs(r - round(r)) > tol or abs(c1 - round(c1)) > tol or abs(c2 - round(c2)) > tol:
            probs.append(('off-grid', round(x1, 6), round(y, 6), round(x2, 6)))
            continue
        r = int(round(r))
        for c in range(int(round(c1)), int(round(c2))):
            cells[(r, c)] = cells.get((r, c), 0) + 1
    return cells, probs
