"""Independent readers for the raster and text outputs: PNG, PBM (P1/P4), PPM (P6),
PAM (P7), XBM, XPM, TXT, ANSI terminal, half-block terminal. Each returns a dict
with 'w', 'h' and 'px' (rows of RGBA tuples, or of symbols for the text kinds).
Imports nothing from segno."""
import re
import struct
import zlib


class Bad(Exception):
    pass


def read_png(data):
    """Any non-interlaced PNG of colour type 0, 2, 3, 4 or 6 with bit depth <= 8 (all five filter types)."""
    if data[:8] != b'\x89PNG\r\n\x1a\n':
        raise Bad('PNG signature')
    p = 8
    chunks = []
    while p < len(data):
        if p + 12 > len(data):
            raise Bad('truncated chunk')
        ln, = struct.unpack('>I', data[p:p + 4])
        typ = data[p + 4:p + 8]
        body = data[p + 8:p + 8 + ln]
        if len(body) != ln or p + 12 + ln > len(data):
            raise Bad('truncated chunk ' + typ.decode('latin1'))
        crc, = struct.unpack('>I', data[p + 8 + ln:p + 12 + ln])
        if zlib.crc32(typ + body) & 0xffffffff != crc:
            raise Bad('CRC of chunk ' + typ.decode('latin1'))
        chunks.append((typ, body))
        p += 12 + ln
    names = [c[0] for c in chunks]
    if not names or names[0] != b'IHDR' or names[-1] != b'IEND' or names.count(b'IEND') != 1 or names.count(b'IHDR') != 1:
        raise Bad('chunk order %r' % names)
    if len(chunks[0][1]) != 13:
        raise Bad('IHDR length')
    w, h, depth, ctype, comp, flt, il = struct.unpack('>2I5B', chunks[0][1])
    if (comp, flt) != (0, 0):
        raise Bad('IHDR compression/filter method')
    if il != 0:
        raise Bad('interlaced PNG is not supported by this reader')
    allowed = {0: (1, 2, 4, 8), 2: (8,), 3: (1, 2, 4, 8), 4: (8,), 6: (8,)}
    if ctype not in allowed or depth not in allowed[ctype]:
        raise Bad('colour type %d with bit depth %d' % (ctype, depth))
    if w == 0 or h == 0:
        raise Bad('zero dimension')
    plte = trns = None
    idat = b''
    phys = None
    idat_idx = [k for k, n in enumerate(names) if n == b'IDAT']
    if not idat_idx:
        raise Bad('no IDAT')
    if idat_idx != list(range(idat_idx[0], idat_idx[0] + len(idat_idx))):
        raise Bad('IDAT chunks not consecutive')
    for k, (typ, body) in enumerate(chunks[1:-1], start=1):
        before_idat = k < idat_idx[0]
        if typ == b'PLTE':
            if not before_idat or trns is not None or plte is not None:
                raise Bad('PLTE order')
            if len(body) % 3 or not 1 <= len(body) // 3 <= 256 or (ctype == 3 and len(body) // 3 > (1 << depth)):
                raise Bad('PLTE size %d for depth %d' % (len(body), depth))
            plte = [tuple(body[i:i + 3]) for i in range(0, len(body), 3)]
        elif typ == b'tRNS':
            if not before_idat or trns is not None:
                raise Bad('tRNS order')
            trns = body
        elif typ == b'IDAT':
            idat += body
        elif typ == b'pHYs':
            if not before_idat or len(body) != 9:
                raise Bad('pHYs')
            phys = struct.unpack('>LLB', body)
        elif typ[:1].islower():
            continue            # other ancillary chunks are legal anywhere
        else:
            raise Bad('unknown critical chunk ' + typ.decode('latin1'))
    if ctype == 3 and plte is None:
        raise Bad('indexed colour without PLTE')
    if ctype in (0, 4) and plte is not None:
        raise Bad('PLTE in greyscale image')
    if trns is not None:
        if ctype == 3 and len(trns) > len(plte):
            raise Bad('tRNS longer than palette')
        if ctype == 0 and len(trns) != 2:
            raise Bad('tRNS length for greyscale')
        if ctype == 2 and len(trns) != 6:
            raise Bad('tRNS length for truecolour')
        if ctype in (4, 6):
            raise Bad('tRNS with alpha colour type')
    try:
        d = zlib.decompressobj()
        raw = d.decompress(idat) + d.flush()
        if not d.eof or d.unused_data:
            raise Bad('zlib stream incomplete or trailing data')
    except zlib.error as ex:
        raise Bad('zlib: %s' % ex)
    channels = {0: 1, 2: 3, 3: 1, 4: 2, 6: 4}[ctype]
    stride = (w * depth * channels + 7) // 8
    bpp = max(1, depth * channels // 8)
    if len(raw) != (stride + 1) * h:
        raise Bad('image data length %d != %d' % (len(raw), (stride + 1) * h))
    prev = bytearray(stride)
    filters = set()
    px = []
    gtrns = struct.unpack('>H', trns)[0] if (trns is not None and ctype == 0) else None
    ttrns = struct.unpack('>3H', trns) if (trns is not None and ctype == 2) else None
    for y in range(h):
        f = raw[y * (stride + 1)]
        line = bytearray(raw[y * (stride + 1) + 1:(y + 1) * (stride + 1)])
        filters.add(f)
        if f == 0:
            pass
        elif f == 1:
            for i in range(bpp, stride):
                line[i] = (line[i] + line[i - bpp]) & 0xff
        elif f == 2:
            for i in range(stride):
                line[i] = (line[i] + prev[i]) & 0xff
        elif f == 3:
            for i in range(stride):
                a = line[i - bpp] if i >= bpp else 0
                line[i] = (line[i] + ((a + prev[i]) >> 1)) & 0xff
        elif f == 4:
            for i in range(stride):
                a = line[i - bpp] if i >= bpp else 0
                b = prev[i]
                c = prev[i - bpp] if i >= bpp else 0
                pa, pb, pc = abs(b - c), abs(a - c), abs(a + b - 2 * c)
                pr = a if (pa <= pb and pa <= pc) else (b if pb <= pc else c)
                line[i] = (line[i] + pr) & 0xff
        else:
            raise Bad('filter type %d' % f)
        prev = line
        row = []
        if ctype in (0, 3):
            vals = []
            for byte in line:
                for k in range(8 // depth):
                    vals.append((byte >> (8 - depth * (k + 1))) & ((1 << depth) - 1))
            for v in vals[:w]:
                if ctype == 3:
                    if v >= len(plte):
                        raise Bad('index %d outside palette of %d' % (v, len(plte)))
                    a = trns[v] if trns is not None and v < len(trns) else 255
                    row.append(plte[v] + (a,))
                else:
                    g = v * 255 // ((1 << depth) - 1)
                    row.append((g, g, g, 0 if gtrns == v else 255))
        elif ctype == 2:
            for x in range(w):
                r, g, b = line[3 * x:3 * x + 3]
                row.append((r, g, b, 0 if ttrns == (r, g, b) else 255))
        elif ctype == 4:
            for x in range(w):
                g, a = line[2 * x:2 * x + 2]
                row.append((g, g, g, a))
        else:
            for x in range(w):
                row.append(tuple(line[4 * x:4 * x + 4]))
        px.append(row)
    return {'w': w, 'h': h, 'depth': depth, 'ctype': ctype, 'px': px, 'phys': phys, 'filters': sorted(filters),
            'ncolors': len(plte) if plte else None}


def _pnm_tokens(data, n):
    """Reads n whitespace separated header tokens (comments skipped); returns (tokens, offset after the single
    whitespace byte that follows the last token)."""
    toks = []
    p = 0
    while len(toks) < n:
        while p < len(data) and data[p:p + 1].isspace():
            p += 1
        if data[p:p + 1] == b'#':
            while p < len(data) and data[p:p + 1] != b'\n':
                p += 1
            continue
        q = p
        while q < len(data) and not data[q:q + 1].isspace() and data[q:q + 1] != b'#':
            q += 1
        if q == p:
            raise Bad('PNM header truncated')
        toks.append(data[p:q])
        p = q
    if data[p:p + 1] == b'#':
        # comment directly after the last token: runs to end of line
        while p < len(data) and data[p:p + 1] != b'\n':
            p += 1
    if not data[p:p + 1].isspace():
        raise Bad('no whitespace after PNM header')
    return toks, p + 1


def _int(tok, what):
    if not re.match(rb'^[0-9]+$', tok):
        raise Bad('%s is not an integer: %r' % (what, tok[:20]))
    return int(tok)


def read_pnm(data):
    magic = data[:2]
    if magic == b'P7':
        return read_pam(data)
    if magic in (b'P1', b'P4'):
        toks, off = _pnm_tokens(data, 3)
        w, h = _int(toks[1], 'width'), _int(toks[2], 'height')
        body = data[off:]
        if magic == b'P4':
            stride = (w + 7) // 8
            if len(body) != stride * h:
                raise Bad('P4 raster length %d != %d' % (len(body), stride * h))
            bits = [[(body[y * stride + x // 8] >> (7 - x % 8)) & 1 for x in range(w)] for y in range(h)]
            for y in range(h):
                if stride * 8 > w and body[y * stride + stride - 1] & ((1 << (stride * 8 - w)) - 1):
                    raise Bad('P4 padding bits set in row %d' % y)
        else:
            vals = [c - 48 for c in body if not bytes((c,)).isspace()]
            if any(v not in (0, 1) for v in vals):
                raise Bad('P1 raster contains other characters')
            if len(vals) != w * h:
                raise Bad('P1 raster has %d pixels, header says %d' % (len(vals), w * h))
            bits = [vals[y * w:(y + 1) * w] for y in range(h)]
        px = [[(0, 0, 0, 255) if b else (255, 255, 255, 255) for b in r] for r in bits]
        return {'w': w, 'h': h, 'px': px, 'kind': magic.decode()}
    if magic == b'P6':
        toks, off = _pnm_tokens(data, 4)
        w, h, maxval = _int(toks[1], 'width'), _int(toks[2], 'height'), _int(toks[3], 'maxval')
        if not 0 < maxval < 256:
            raise Bad('P6 maxval %d' % maxval)
        body = data[off:]
        if len(body) != w * h * 3:
            raise Bad('P6 raster length %d != %d' % (len(body), w * h * 3))
        def sc(v):
            if v > maxval:
                raise Bad('sample above maxval')
            return (v * 255 + maxval // 2) // maxval
        px = [[tuple(sc(c) for c in body[(y * w + x) * 3:(y * w + x) * 3 + 3]) + (255,) for x in range(w)] for y in range(h)]
        return {'w': w, 'h': h, 'px': px, 'kind': 'P6', 'maxval': maxval}
    raise Bad('Netpbm magic %r' % magic)


def read_pam(data):
    if not data.startswith(b'P7\n'):
        raise Bad('PAM magic')
    end = data.find(b'ENDHDR\n')
    if end < 0:
        raise Bad('no ENDHDR')
    f = {}
    for line in data[3:end].split(b'\n'):
        if not line or line.startswith(b'#'):
            continue
        k, _, v = line.partition(b' ')
        if k in f and k != b'TUPLTYPE':
            raise Bad('duplicate header ' + k.decode())
        f[k] = v.strip()
    for k in (b'WIDTH', b'HEIGHT', b'DEPTH', b'MAXVAL'):
        if k not in f:
            raise Bad('missing ' + k.decode())
    w, h, depth, maxval = (_int(f[k], k.decode()) for k in (b'WIDTH', b'HEIGHT', b'DEPTH', b'MAXVAL'))
    tt = f.get(b'TUPLTYPE', b'').decode()
    need = {'BLACKANDWHITE': 1, 'GRAYSCALE': 1, 'RGB': 3, 'BLACKANDWHITE_ALPHA': 2, 'GRAYSCALE_ALPHA': 2, 'RGB_ALPHA': 4}
    if tt not in need or need[tt] != depth:
        raise Bad('TUPLTYPE %s with DEPTH %d' % (tt, depth))
    if not 0 < maxval < 256 or (tt.startswith('BLACKANDWHITE') and maxval != 1):
        raise Bad('MAXVAL %d for %s' % (maxval, tt))
    body = data[end + 7:]
    if len(body) != w * h * depth:
        raise Bad('PAM raster length %d != %d' % (len(body), w * h * depth))

    def sc(v):
        if v > maxval:
            raise Bad('sample %d above MAXVAL %d' % (v, maxval))
        return (v * 255 + maxval // 2) // maxval
    px = []
    for y in range(h):
        row = []
        for x in range(w):
            t = body[(y * w + x) * depth:(y * w + x + 1) * depth]
            if depth == 1:
                g = sc(t[0])
                row.append((g, g, g, 255))
            elif depth == 2:
                g = sc(t[0])
                row.append((g, g, g, sc(t[1])))
            elif depth == 3:
                row.append((sc(t[0]), sc(t[1]), sc(t[2]), 255))
            else:
                row.append((sc(t[0]), sc(t[1]), sc(t[2]), sc(t[3])))
        px.append(row)
    return {'w': w, 'h': h, 'px': px, 'kind': 'P7', 'tupltype': tt, 'maxval': maxval}


def read_xbm(text, name='img'):
    mw = re.search(r'^#define (\w+)_width (\d+)\s*$', text, re.M)
    mh = re.search(r'^#define (\w+)_height (\d+)\s*$', text, re.M)
    if not mw or not mh or mw.group(1) != mh.group(1):
        raise Bad('XBM #define lines')
    w, h = int(mw.group(2)), int(mh.group(2))
    mb = re.search(r'static (?:unsigned )?char (\w+)_bits\[\] = \{(.*?)\};', text, re.S)
    if not mb or mb.group(1) != mw.group(1):
        raise Bad('XBM bits array')
    items = [x.strip() for x in mb.group(2).split(',')]
    if items and items[-1] == '':
        items.pop()
    vals = []
    for it in items:
        if not re.match(r'^0x[0-9a-fA-F]{2}$', it):
            raise Bad('XBM item %r' % it[:12])
        vals.append(int(it, 16))
    stride = (w + 7) // 8
    if len(vals) != stride * h:
        raise Bad('XBM has %d bytes, %d expected' % (len(vals), stride * h))
    bits = [[(vals[y * stride + x // 8] >> (x % 8)) & 1 for x in range(w)] for y in range(h)]
    px = [[(0, 0, 0, 255) if b else (255, 255, 255, 255) for b in r] for r in bits]
    return {'w': w, 'h': h, 'px': px, 'name': mw.group(1)}


def read_xpm(text):
    if not text.startswith('/* XPM */'):
        raise Bad('XPM header comment')
    m = re.search(r'static char \*\s*(\w+)\[\] = \{(.*)\};\s*$', text, re.S)
    if not m:
        raise Bad('XPM array')
    strs = re.findall(r'"([^"]*)"', m.group(2))
    # the strings must be separated by commas
    if re.sub(r'"[^"]*"', 'S', m.group(2)).replace('\n', '').replace(' ', '') != ','.join('S' * len(strs)):
        raise Bad('XPM string separators')
    try:
        w, h, nc, cpp = (int(x) for x in strs[0].split())
    except Exception:  # noqa: BLE001
        raise Bad('XPM values line %r' % strs[0][:30])
    if cpp != 1 or len(strs) != 1 + nc + h:
        raise Bad('XPM has %d strings, %d expected' % (len(strs), 1 + nc + h))
    cmap = {}
    for s in strs[1:1 + nc]:
        mm = re.match(r'^(.) c (\S+)$', s)
        if not mm:
            raise Bad('XPM colour line %r' % s)
        cmap[mm.group(1)] = mm.group(2)
    rows = strs[1 + nc:]
    if any(len(r) != w for r in rows):
        raise Bad('XPM row length')
    px = []
    for r in rows:
        out = []
        for ch in r:
            if ch not in cmap:
                raise Bad('XPM pixel char %r undefined' % ch)
            c = cmap[ch]
            if c == 'None':
                out.append((0, 0, 0, 0))
            else:
                if not re.match(r'^#[0-9a-fA-F]{6}$', c):
                    raise Bad('XPM colour %r' % c)
                out.append((int(c[1:3], 16), int(c[3:5], 16), int(c[5:7], 16), 255))
        px.append(out)
    return {'w': w, 'h': h, 'px': px, 'name': m.group(1)}


def read_txt(text, dark='1', light='0'):
    if not text.endswith('\n'):
        raise Bad('TXT does not end with a newline')
    rows = text[:-1].split('\n')
    w = len(rows[0]) // max(len(dark), 1)
    out = []
    for r in rows:
        line = []
        i = 0
        while i < len(r):
            if r.startswith(dark, i):
                line.append(1)
                i += len(dark)
            elif r.startswith(light, i):
                line.append(0)
                i += len(light)
            else:
                raise Bad('TXT character %r' % r[i])
        out.append(line)
    return {'w': w, 'h': len(out), 'grid': out}


_ANSI_RUN = re.compile(r'\033\[(7|49)m((?:  )+)\033\[0m')


def read_ansi(text):
    if not text.endswith('\n'):
        raise Bad('ANSI output does not end with a newline')
    out = []
    for r in text[:-1].split('\n'):
        line = []
        pos = 0
        for m in _ANSI_RUN.finditer(r):
            if m.start() != pos:
                raise Bad('ANSI junk %r' % r[pos:m.start()][:20])
            line += [0 if m.group(1) == '7' else 1] * (len(m.group(2)) // 2)
            pos = m.end()
        if pos != len(r):
            raise Bad('ANSI junk at end of line %r' % r[pos:][:20])
        out.append(line)
    return {'w': len(out[0]) if out else 0, 'h': len(out), 'grid': out}


def read_compact(text):
    if not text.endswith('\n'):
        raise Bad('compact output does not end with a newline')
    inv = {' ': (1, 1), '▀': (0, 1), '▄': (1, 0), '█': (0, 0)}
    out = []
    for r in text[:-1].split('\n'):
        try:
            out.append([inv[c][0] for c in r])
            out.append([inv[c][1] for c in r])
        except KeyError as ex:
            raise Bad('compact character %r' % ex.args[0])
    return {'w': len(out[0]) if out else 0, 'h': len(out), 'grid': out}
