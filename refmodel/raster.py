import zlib, struct
class Bad(Exception): pass
def read_png(data):
    if data[:8] != b'\x89PNG\r\n\x1a\n': raise Bad('sig')
    p = 8; chunks = []
    while p < len(data):
        ln, = struct.unpack('>I', data[p:p+4]); typ = data[p+4:p+8]; body = data[p+8:p+8+ln]
        crc, = struct.unpack('>I', data[p+8+ln:p+12+ln])
        if zlib.crc32(typ + body) & 0xffffffff != crc: raise Bad('crc ' + typ.decode())
        chunks.append((typ, body)); p += 12 + ln
    names = [c[0] for c in chunks]
    if names[0] != b'IHDR' or names[-1] != b'IEND': raise Bad('order %r' % names)
    w, h, depth, ctype, comp, flt, il = struct.unpack('>2I5B', chunks[0][1])
    if (comp, flt, il) != (0, 0, 0): raise Bad('ihdr')
    if ctype not in (0, 3) or depth not in (1, 2, 4, 8): raise Bad('type/depth')
    plte = trns = None; idat = b''; phys = None
    for typ, body in chunks[1:-1]:
        if typ == b'PLTE':
            if idat or trns is not None: raise Bad('PLTE order')
            plte = [tuple(body[i:i+3]) for i in range(0, len(body), 3)]
        elif typ == b'tRNS':
            if idat: raise Bad('tRNS after IDAT')
            trns = body
        elif typ == b'IDAT': idat += body
        elif typ == b'pHYs': phys = struct.unpack('>LLB', body)
        else: raise Bad('chunk ' + typ.decode())
    if ctype == 3 and plte is None: raise Bad('no PLTE')
    raw = zlib.decompress(idat)
    stride = (w * depth + 7) // 8
    if len(raw) != (stride + 1) * h: raise Bad('idat length %d != %d' % (len(raw), (stride + 1) * h))
    rows = []; prev = bytes(stride)
    for y in range(h):
        f = raw[y * (stride + 1)]; line = raw[y * (stride + 1) + 1:(y + 1) * (stride + 1)]
        if f == 0: cur = line
        elif f == 2: cur = bytes((a + b) & 0xff for a, b in zip(line, prev))
        else: raise Bad('filter %d' % f)
        prev = cur
        vals = []
        for byte in cur:
            for k in range(8 // depth):
                vals.append((byte >> (8 - depth * (k + 1))) & ((1 << depth) - 1))
        pad = vals[w:]
        rows.append(vals[:w])
    px = []
    for r in rows:
        out = []
        for v in r:
            if ctype == 3:
                if v >= len(plte): raise Bad('index %d outside palette' % v)
                a = trns[v] if trns is not None and v < len(trns) else 255
                out.append(plte[v] + (a,))
            else:
                g = v * 255 // ((1 << depth) - 1)
                a = 255
                if trns is not None and struct.unpack('>H', trns)[0] == v: a = 0
                out.append((g, g, g, a))
        px.append(out)
    return dict(w=w, h=h, depth=depth, ctype=ctype, px=px, phys=phys, ncolors=len(plte) if plte else 2)
def read_ppm(data):
    import re
    m = re.match(rb'^P6 #[^\n]*\n(\d+) (\d+) 255\n', data)
    if not m: raise Bad('ppm header')
    w, h = int(m.group(1)), int(m.group(2)); body = data[m.end():]
    if len(body) != w * h * 3: raise Bad('ppm length')
    return dict(w=w, h=h, px=[[tuple(body[(y * w + x) * 3:(y * w + x) * 3 + 3]) + (255,) for x in range(w)] for y in range(h)])
