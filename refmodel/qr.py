# Independent ISO/IEC 18004 reference model + decoder (prototype).
# Imports nothing from segno. All tables are either computed from first
# principles (BCH, Golay, GF(256), alignment positions, module counts) or
# written down from ISO Table 9 independently of segno.consts.

# ---------------------------------------------------------------- GF(256)
EXP = [0] * 512
LOG = [0] * 256
_x = 1
for _i in range(255):
    EXP[_i] = _x
    LOG[_x] = _i
    _x <<= 1
    if _x & 0x100:
        _x ^= 0x11d
for _i in range(255, 512):
    EXP[_i] = EXP[_i - 255]


def gmul(a, b):
    if a == 0 or b == 0:
        return 0
    return EXP[LOG[a] + LOG[b]]


def gdiv(a, b):
    if b == 0:
        raise ZeroDivisionError
    if a == 0:
        return 0
    return EXP[(LOG[a] - LOG[b]) % 255]


def ginv(a):
    return EXP[255 - LOG[a]]


def poly_eval(p, x):
    """p: coefficients highest degree first."""
    y = 0
    for c in p:
        y = gmul(y, x) ^ c
    return y


def rs_syndromes(cw, nec):
    return [poly_eval(cw, EXP[j]) for j in range(nec)]


def rs_generator(nec):
    g = [1]
    for j in range(nec):
        # multiply by (x - alpha^j)
        ng = [0] * (len(g) + 1)
        for i, c in enumerate(g):
            ng[i] ^= c
            ng[i + 1] ^= gmul(c, EXP[j])
        g = ng
    return g


def rs_encode(data, nec):
    g = rs_generator(nec)
    rem = list(data) + [0] * nec
    for i in range(len(data)):
        c = rem[i]
        if c:
            for j in range(1, len(g)):
                rem[i + j] ^= gmul(g[j], c)
    return rem[len(data):]


def rs_correct(cw, nec):
    """Berlekamp-Massey / Chien / Forney. Returns corrected list or None."""
    n = len(cw)
    synd = rs_syndromes(cw, nec)
    if not any(synd):
        return list(cw), 0
    # Berlekamp-Massey; polys lowest degree first
    C = [1]
    B = [1]
    L = 0
    m = 1
    b = 1
    for r in range(nec):
        d = synd[r]
        for i in range(1, L + 1):
            if i < len(C):
                d ^= gmul(C[i], synd[r - i])
        if d == 0:
            m += 1
        elif 2 * L <= r:
            T = list(C)
            coef = gdiv(d, b)
            C = C + [0] * (len(B) + m - len(C))
            for i, bc in enumerate(B):
                C[i + m] ^= gmul(coef, bc)
            L = r + 1 - L
            B = T
            b = d
            m = 1
        else:
            coef = gdiv(d, b)
            C = C + [0] * (len(B) + m - len(C))
            for i, bc in enumerate(B):
                C[i + m] ^= gmul(coef, bc)
            m += 1
    while C and C[-1] == 0:
        C.pop()
    nerr = len(C) - 1
    if nerr != L or nerr * 2 > nec:
        return None, -1
    # Chien search: error at position p (power index k = n-1-p) iff C(alpha^-k) == 0
    errpos = []
    for k in range(n):
        xinv = EXP[(255 - k) % 255]
        v = 0
        for i in reversed(range(len(C))):
            v = gmul(v, xinv) ^ C[i]
        if v == 0:
            errpos.append(k)
    if len(errpos) != nerr:
        return None, -1
    # Forney, fcr = 0:  e_k = X_k * Omega(X_k^-1) / Lambda'(X_k^-1)
    # Omega = (S * C) mod x^nec
    omega = [0] * nec
    for i in range(nec):
        v = 0
        for j in range(min(i, len(C) - 1) + 1):
            v ^= gmul(C[j], synd[i - j])
        omega[i] = v
    out = list(cw)
    for k in errpos:
        X = EXP[k]
        Xinv = EXP[(255 - k) % 255]
        om = 0
        for i in reversed(range(nec)):
            om = gmul(om, Xinv) ^ omega[i]
        # formal derivative of C at Xinv: sum over odd i of C[i] * Xinv^(i-1)
        dv = 0
        for i in range(1, len(C), 2):
            dv ^= gmul(C[i], EXP[(LOG[Xinv] * (i - 1)) % 255] if Xinv != 0 else 0)
        if dv == 0:
            return None, -1
        mag = gmul(X, gdiv(om, dv))
        out[n - 1 - k] ^= mag
    if any(rs_syndromes(out, nec)):
        return None, -1
    return out, nerr


# ---------------------------------------------------------------- tables
L, M, Q, H = 'L', 'M', 'Q', 'H'
# ISO/IEC 18004:2015 Table 9, written as (ec codewords per block, number of blocks)
_ECPB = {
    L: [7, 10, 15, 20, 26, 18, 20, 24, 30, 18, 20, 24, 26, 30, 22, 24, 28, 30, 28, 28,
        28, 28, 30, 30, 26, 28, 30, 30, 30, 30, 30, 30, 30, 30, 30, 30, 30, 30, 30, 30],
    M: [10, 16, 26, 18, 24, 16, 18, 22, 22, 26, 30, 22, 22, 24, 24, 28, 28, 26, 26, 26,
        26, 28, 28, 28, 28, 28, 28, 28, 28, 28, 28, 28, 28, 28, 28, 28, 28, 28, 28, 28],
    Q: [13, 22, 18, 26, 18, 24, 18, 22, 20, 24, 28, 26, 24, 20, 30, 24, 28, 28, 26, 30,
        28, 30, 30, 30, 30, 28, 30, 30, 30, 30, 30, 30, 30, 30, 30, 30, 30, 30, 30, 30],
    H: [17, 28, 22, 16, 22, 28, 26, 26, 24, 28, 24, 28, 22, 24, 24, 30, 28, 28, 26, 28,
        30, 24, 30, 30, 30, 30, 30, 30, 30, 30, 30, 30, 30, 30, 30, 30, 30, 30, 30, 30],
}
_NBLK = {
    L: [1, 1, 1, 1, 1, 2, 2, 2, 2, 4, 4, 4, 4, 4, 6, 6, 6, 6, 7, 8,
        8, 9, 9, 10, 12, 12, 12, 13, 14, 15, 16, 17, 18, 19, 19, 20, 21, 22, 24, 25],
    M: [1, 1, 1, 2, 2, 4, 4, 4, 5, 5, 5, 8, 9, 9, 10, 10, 11, 13, 14, 16,
        17, 17, 18, 20, 21, 23, 25, 26, 28, 29, 31, 33, 35, 37, 38, 40, 43, 45, 47, 49],
    Q: [1, 1, 2, 2, 4, 4, 6, 6, 8, 8, 8, 10, 12, 16, 12, 17, 16, 18, 21, 20,
        23, 23, 25, 27, 29, 34, 34, 35, 38, 40, 43, 45, 48, 51, 53, 56, 59, 62, 65, 68],
    H: [1, 1, 2, 4, 4, 4, 5, 6, 8, 8, 11, 11, 16, 16, 18, 16, 19, 21, 25, 25,
        25, 34, 30, 32, 35, 37, 40, 42, 45, 48, 51, 54, 57, 60, 63, 66, 70, 74, 77, 81],
}
# Micro QR: version name -> level -> (total codewords, data codewords, data bits)
MICRO = {
    'M1': {None: (5, 3, 20)},
    'M2': {L: (10, 5, 40), M: (10, 4, 32)},
    'M3': {L: (17, 11, 84), M: (17, 9, 68)},
    'M4': {L: (24, 16, 128), M: (24, 14, 112), Q: (24, 10, 80)},
}
MICRO_ORDER = ['M1', 'M2', 'M3', 'M4']
LEVEL_ORDER = [L, M, Q, H]


def is_micro(version):
    return isinstance(version, str)


def size_of(version):
    if is_micro(version):
        return 9 + 2 * int(version[1])
    return 17 + 4 * version


def version_of_size(size):
    if size < 21:
        return 'M%d' % ((size - 9) // 2)
    return (size - 17) // 4


def alignment_positions(ver):
    if ver == 1:
        return []
    n = ver // 7 + 2
    step = 26 if ver == 32 else (ver * 4 + n * 2 + 1) // (n * 2 - 2) * 2
    res = [6]
    pos = ver * 4 + 10
    tail = []
    for _ in range(n - 1):
        tail.append(pos)
        pos -= step
    return res + tail[::-1]


def raw_modules(ver):
    r = (16 * ver + 128) * ver + 64
    if ver >= 2:
        n = ver // 7 + 2
        r -= (25 * n - 10) * n - 55
        if ver >= 7:
            r -= 36
    return r


def block_layout(version, level):
    """Returns list of (total, data) per block in ISO order (short blocks first)."""
    if is_micro(version):
        tot, dat, _ = MICRO[version][level]
        return [(tot, dat)]
    raw = raw_modules(version) // 8
    nb = _NBLK[level][version - 1]
    ecpb = _ECPB[level][version - 1]
    short_total = raw // nb
    nlong = raw % nb
    res = []
    for i in range(nb):
        tot = short_total + (1 if i >= nb - nlong else 0)
        res.append((tot, tot - ecpb))
    return res


def data_bits_capacity(version, level):
    if is_micro(version):
        return MICRO[version][level][2]
    return 8 * sum(d for _, d in block_layout(version, level))


def remainder_bits(version):
    if is_micro(version):
        return 0
    return raw_modules(version) % 8


# ---- BCH(15,5) format, Golay(18,6) version
def bch15(data5):
    v = data5 << 10
    g = 0x537
    for i in range(4, -1, -1):
        if v & (1 << (i + 10)):
            v ^= g << i
    return (data5 << 10) | v


_QR_LEVEL_BITS = {L: 1, M: 0, Q: 3, H: 2}
_QR_BITS_LEVEL = {v: k for k, v in _QR_LEVEL_BITS.items()}
# Micro QR symbol number (ISO Table 13)
_MICRO_SYMNUM = {('M1', None): 0, ('M2', L): 1, ('M2', M): 2, ('M3', L): 3, ('M3', M): 4,
                 ('M4', L): 5, ('M4', M): 6, ('M4', Q): 7}
_MICRO_NUMSYM = {v: k for k, v in _MICRO_SYMNUM.items()}


def format_word(version, level, mask):
    if is_micro(version):
        return bch15((_MICRO_SYMNUM[(version, level)] << 2) | mask) ^ 0x4445
    return bch15((_QR_LEVEL_BITS[level] << 3) | mask) ^ 0x5412


def version_word(ver):
    v = ver << 12
    g = 0x1f25
    for i in range(5, -1, -1):
        if v & (1 << (i + 12)):
            v ^= g << i
    return (ver << 12) | v


# ---------------------------------------------------------------- geometry
# module classes
FINDER, SEP, TIMING, ALIGN, FORMAT, VERSION, DARKMOD, DATA = range(8)
CLASS_NAMES = ['finder', 'separator', 'timing', 'alignment', 'format', 'version', 'dark_module', 'data']

_FINDER7 = ["1111111", "1000001", "1011101", "1011101", "1011101", "1000001", "1111111"]


def function_map(version):
    """Returns (cls, val) matrices: cls[r][c] module class; val[r][c] the fixed
    value for function modules (None for data/format/version)."""
    size = size_of(version)
    micro = is_micro(version)
    cls = [[DATA] * size for _ in range(size)]
    val = [[None] * size for _ in range(size)]

    def put(r, c, k, v):
        cls[r][c] = k
        val[r][c] = v

    # timing first (may be overwritten by finder/sep/alignment)
    if micro:
        for i in range(size):
            put(0, i, TIMING, 1 - (i & 1))
            put(i, 0, TIMING, 1 - (i & 1))
    else:
        for i in range(size):
            put(6, i, TIMING, 1 - (i & 1))
            put(i, 6, TIMING, 1 - (i & 1))
    corners = [(0, 0)] if micro else [(0, 0), (0, size - 7), (size - 7, 0)]
    for (r0, c0) in corners:
        for dr in range(-1, 8):
            for dc in range(-1, 8):
                r, c = r0 + dr, c0 + dc
                if not (0 <= r < size and 0 <= c < size):
                    continue
                if 0 <= dr < 7 and 0 <= dc < 7:
                    put(r, c, FINDER, int(_FINDER7[dr][dc]))
                else:
                    put(r, c, SEP, 0)
    if not micro:
        pos = alignment_positions(version)
        last = len(pos) - 1
        for i, cy in enumerate(pos):
            for j, cx in enumerate(pos):
                if (i == 0 and j == 0) or (i == 0 and j == last) or (i == last and j == 0):
                    continue
                for dr in range(-2, 3):
                    for dc in range(-2, 3):
                        put(cy + dr, cx + dc, ALIGN, 1 if max(abs(dr), abs(dc)) != 1 else 0)
        # format areas
        for (r, c) in format_positions(version)[0] + format_positions(version)[1]:
            put(r, c, FORMAT, None)
        put(size - 8, 8, DARKMOD, 1)
        if version >= 7:
            for (r, c) in version_positions(version)[0] + version_positions(version)[1]:
                put(r, c, VERSION, None)
    else:
        for (r, c) in format_positions(version)[0]:
            put(r, c, FORMAT, None)
    return cls, val


def format_positions(version):
    """Returns list of copies; each copy is list of (row, col) for bit 0..14 (bit 14 = MSB)."""
    size = size_of(version)
    if is_micro(version):
        p = [None] * 15
        for i in range(8):          # bits 0..7 column 8, rows 1..8
            p[i] = (1 + i, 8)
        for i in range(8, 15):      # bits 8..14 row 8, cols 7..1
            p[i] = (8, 15 - i)
        return [p]
    a = [None] * 15
    for i in range(0, 6):
        a[i] = (i, 8)
    a[6] = (7, 8)
    a[7] = (8, 8)
    a[8] = (8, 7)
    for i in range(9, 15):
        a[i] = (8, 14 - i)
    b = [None] * 15
    for i in range(0, 8):
        b[i] = (8, size - 1 - i)
    for i in range(8, 15):
        b[i] = (size - 15 + i, 8)
    return [a, b]


def version_positions(ver):
    size = size_of(ver)
    tr = [(i // 3, size - 11 + i % 3) for i in range(18)]   # top right: row=i//3, col=size-11+i%3
    bl = [(size - 11 + i % 3, i // 3) for i in range(18)]   # bottom left
    return [tr, bl]


def mask_fn(version, mask):
    fns = [lambda i, j: (i + j) % 2 == 0,
           lambda i, j: i % 2 == 0,
           lambda i, j: j % 3 == 0,
           lambda i, j: (i + j) % 3 == 0,
           lambda i, j: (i // 2 + j // 3) % 2 == 0,
           lambda i, j: (i * j) % 2 + (i * j) % 3 == 0,
           lambda i, j: ((i * j) % 2 + (i * j) % 3) % 2 == 0,
           lambda i, j: ((i + j) % 2 + (i * j) % 3) % 2 == 0]
    if is_micro(version):
        return fns[[1, 4, 6, 7][mask]]
    return fns[mask]


def data_module_order(version, cls=None):
    """Zig-zag placement order of encoding-region modules."""
    size = size_of(version)
    micro = is_micro(version)
    if cls is None:
        cls, _ = function_map(version)
    order = []
    right = size - 1
    upward = True
    while right >= 1:
        if not micro and right == 6:
            right = 5
        for vert in range(size):
            r = size - 1 - vert if upward else vert
            for c in (right, right - 1):
                if cls[r][c] == DATA:
                    order.append((r, c))
        upward = not upward
        right -= 2
    return order


# ---------------------------------------------------------------- decoding
class DecodeError(Exception):
    pass


class Symbol:
    pass


def hamming(a, b):
    return bin(a ^ b).count('1')


def read_symbol(matrix, correct=True):
    """Decode a module matrix (sequence of sequences of 0/1) completely.
    Returns a Symbol with all intermediate artefacts. Raises DecodeError; the
    exception carries what was established until then as `.partial`."""
    s = Symbol()
    try:
        return _read_symbol(s, matrix, correct)
    except DecodeError as ex:
        ex.partial = s
        raise


def _read_symbol(s, matrix, correct):
    size = len(matrix)
    s.size = size
    s.problems = []   # structural problems (strings)
    for row in matrix:
        if len(row) != size:
            raise DecodeError('not square')
        for v in row:
            if v not in (0, 1):
                raise DecodeError('non-binary module value %r' % (v,))
    if size < 21:
        if size not in (11, 13, 15, 17):
            raise DecodeError('bad size %d' % size)
    elif (size - 17) % 4 or not 21 <= size <= 177:
        raise DecodeError('bad size %d' % size)
    version = version_of_size(size)
    s.version = version
    micro = is_micro(version)
    cls, val = function_map(version)
    s.cls = cls
    # function patterns
    bad = []
    for r in range(size):
        for c in range(size):
            if val[r][c] is not None and matrix[r][c] != val[r][c]:
                bad.append((r, c, CLASS_NAMES[cls[r][c]]))
    s.function_pattern_errors = bad
    # format info
    copies = []
    for pos in format_positions(version):
        w = 0
        for i, (r, c) in enumerate(pos):
            w |= matrix[r][c] << i
        copies.append(w)
    s.format_copies = copies
    xor = 0x4445 if micro else 0x5412
    fmt = None
    for w in copies:
        d = (w ^ xor) >> 10
        if bch15(d) ^ xor == w:
            fmt = d
            break
    s.format_valid = [bch15((w ^ xor) >> 10) ^ xor == w for w in copies]
    if fmt is None:
        raise DecodeError('format information is not a valid BCH codeword: %r' % ([hex(w) for w in copies],))
    if micro:
        ver2, level = _MICRO_NUMSYM[fmt >> 2]
        mask = fmt & 3
        if ver2 != version:
            raise DecodeError('micro symbol number says %s but size says %s' % (ver2, version))
    else:
        level = _QR_BITS_LEVEL[fmt >> 3]
        mask = fmt & 7
    s.level, s.mask = level, mask
    # version info
    s.version_copies = None
    if not micro and version >= 7:
        vc = []
        for pos in version_positions(version):
            w = 0
            for i, (r, c) in enumerate(pos):
                w |= matrix[r][c] << i
            vc.append(w)
        s.version_copies = vc
    # unmask + read bits
    mf = mask_fn(version, mask)
    order = data_module_order(version, cls)
    s.order = order
    bits = [matrix[r][c] ^ (1 if mf(r, c) else 0) for (r, c) in order]
    s.raw_bits = bits
    layout = block_layout(version, level)
    s.layout = layout
    total_cw = sum(t for t, _ in layout)
    ndata = sum(d for _, d in layout)
    half = version in ('M1', 'M3')
    nbits_expected = total_cw * 8 - (4 if half else 0)
    rem = len(bits) - nbits_expected
    s.remainder = bits[nbits_expected:]
    if rem != remainder_bits(version):
        raise DecodeError('encoding region has %d modules, expected %d + %d remainder' % (
            len(bits), nbits_expected, remainder_bits(version)))
    # to codewords
    cws = []
    p = 0
    for k in range(total_cw):
        if half and k == ndata - 1:
            v = 0
            for b in bits[p:p + 4]:
                v = (v << 1) | b
            v <<= 4
            p += 4
        else:
            v = 0
            for b in bits[p:p + 8]:
                v = (v << 1) | b
            p += 8
        cws.append(v)
    s.codewords = cws
    # de-interleave
    nb = len(layout)
    blocks = [[] for _ in range(nb)]
    maxd = max(d for _, d in layout)
    idx = 0
    for i in range(maxd):
        for b, (t, d) in enumerate(layout):
            if i < d:
                blocks[b].append(cws[idx])
                idx += 1
    maxe = max(t - d for t, d in layout)
    for i in range(maxe):
        for b, (t, d) in enumerate(layout):
            if i < t - d:
                blocks[b].append(cws[idx])
                idx += 1
    assert idx == total_cw
    s.blocks = blocks
    s.block_syndromes_ok = []
    data = []
    s.corrected_errors = 0
    for b, (t, d) in enumerate(layout):
        ok = not any(rs_syndromes(blocks[b], t - d))
        s.block_syndromes_ok.append(ok)
        blk = blocks[b]
        if not ok:
            if not correct:
                raise DecodeError('block %d is not an RS codeword' % b)
            fixed, n = rs_correct(blk, t - d)
            if fixed is None:
                raise DecodeError('block %d uncorrectable' % b)
            s.corrected_errors += n
            blk = fixed
        data.extend(blk[:d])
    s.data_codewords = data
    dbits = []
    for k, v in enumerate(data):
        if half and k == ndata - 1:
            dbits.extend((v >> i) & 1 for i in (7, 6, 5, 4))
        else:
            dbits.extend((v >> i) & 1 for i in range(7, -1, -1))
    s.data_bits = dbits
    assert len(dbits) == data_bits_capacity(version, level)
    parse_bitstream(s)
    return s


ALNUM = '0123456789ABCDEFGHIJKLMNOPQRSTUVWXYZ $%*+-./:'
_CCI_QR = {'numeric': (10, 12, 14), 'alphanumeric': (9, 11, 13), 'byte': (8, 16, 16),
           'kanji': (8, 10, 12), 'hanzi': (8, 10, 12)}
_CCI_MICRO = {'numeric': (3, 4, 5, 6), 'alphanumeric': (None, 3, 4, 5), 'byte': (None, None, 4, 5),
              'kanji': (None, None, 3, 4)}
_QR_MODES = {1: 'numeric', 2: 'alphanumeric', 4: 'byte', 8: 'kanji', 13: 'hanzi'}
_MICRO_MODES = {0: 'numeric', 1: 'alphanumeric', 2: 'byte', 3: 'kanji'}
TERMINATOR_LEN = {'M1': 3, 'M2': 5, 'M3': 7, 'M4': 9}


def cci_len(version, mode):
    if is_micro(version):
        return _CCI_MICRO[mode][int(version[1]) - 1]
    return _CCI_QR[mode][0 if version < 10 else (1 if version < 27 else 2)]


def parse_bitstream(s):
    """Parses s.data_bits into segments; records structure of terminator/padding."""
    bits = s.data_bits
    n = len(bits)
    version = s.version
    micro = is_micro(version)
    pos = 0
    segs = []     # dicts: mode, count, payload(bytes), eci(int or None), start, end
    s.sa = None   # (index, total-1, parity)
    s.parse_error = None
    pending_eci = None
    s.eci_headers = []

    def take(k):
        nonlocal pos
        if pos + k > n:
            raise DecodeError('bit stream exhausted at %d (+%d) of %d' % (pos, k, n))
        v = 0
        for b in bits[pos:pos + k]:
            v = (v << 1) | b
        pos += k
        return v

    mi_len = 4 if not micro else int(version[1]) - 1
    term_len = 4 if not micro else TERMINATOR_LEN[version]
    s.end_of_segments = None
    try:
        while True:
            seg_start = pos
            if micro:
                # terminator = mode indicator + char count all zero (or fewer bits at capacity)
                if n - pos < term_len:
                    if not any(bits[pos:]):
                        break
                    # fewer bits than a full terminator and not all zero: not a (truncated) terminator but one more
                    # short segment, e.g. an empty byte segment (indicator + count 0) that ends exactly at the capacity;
                    # parsed like any other segment - running out of bits is reported by take()
                elif not any(bits[pos:pos + term_len]):
                    # Could be a numeric segment with 0 chars == terminator
                    break
                mi = take(mi_len) if mi_len else 0
                if mi not in _MICRO_MODES:
                    raise DecodeError('unknown micro mode indicator %d at bit %d' % (mi, seg_start))
                mode = _MICRO_MODES[mi]
                if cci_len(version, mode) is None:
                    raise DecodeError('mode %s not available in %s' % (mode, version))
            else:
                if n - pos < 4:
                    if any(bits[pos:]):
                        raise DecodeError('non-zero bits in truncated terminator')
                    break
                mi = take(4)
                if mi == 0:
                    pos -= 4
                    break
                if mi == 3:
                    if s.sa is not None or segs:
                        raise DecodeError('structured append header not first')
                    idx = take(4)
                    tot = take(4)
                    par = take(8)
                    s.sa = (idx, tot, par)
                    continue
                if mi == 7:
                    b0 = take(8)
                    if b0 & 0x80 == 0:
                        eci = b0
                    elif b0 & 0xC0 == 0x80:
                        eci = ((b0 & 0x3f) << 8) | take(8)
                    else:
                        eci = ((b0 & 0x1f) << 16) | take(16)
                    pending_eci = eci
                    s.eci_headers.append((seg_start, eci))
                    continue
                if mi not in _QR_MODES:
                    raise DecodeError('unknown mode indicator %d at bit %d' % (mi, seg_start))
                mode = _QR_MODES[mi]
                if mode == 'hanzi':
                    subset = take(4)
                    if subset != 1:
                        raise DecodeError('hanzi subset %d' % subset)
            count = take(cci_len(version, mode))
            payload = bytearray()
            if mode == 'numeric':
                k = count
                while k >= 3:
                    v = take(10)
                    if v > 999:
                        raise DecodeError('numeric group %d' % v)
                    payload += b'%03d' % v
                    k -= 3
                if k == 2:
                    v = take(7)
                    if v > 99:
                        raise DecodeError('numeric group %d' % v)
                    payload += b'%02d' % v
                elif k == 1:
                    v = take(4)
                    if v > 9:
                        raise DecodeError('numeric group %d' % v)
                    payload += b'%d' % v
            elif mode == 'alphanumeric':
                k = count
                while k >= 2:
                    v = take(11)
                    if v >= 45 * 45:
                        raise DecodeError('alnum group %d' % v)
                    payload += ALNUM[v // 45].encode() + ALNUM[v % 45].encode()
                    k -= 2
                if k:
                    v = take(6)
                    if v >= 45:
                        raise DecodeError('alnum char %d' % v)
                    payload += ALNUM[v].encode()
            elif mode == 'byte':
                for _ in range(count):
                    payload.append(take(8))
            elif mode == 'kanji':
                for _ in range(count):
                    v = take(13)
                    w = ((v // 0xC0) << 8) | (v % 0xC0)
                    w += 0x8140 if w < 0x1F00 else 0xC140
                    payload += bytes((w >> 8, w & 0xff))
            elif mode == 'hanzi':
                for _ in range(count):
                    v = take(13)
                    w = ((v // 0x60) << 8) | (v % 0x60)
                    w += 0xA1A1 if w < 0x0A00 else 0xA6A1
                    payload += bytes((w >> 8, w & 0xff))
            segs.append(dict(mode=mode, count=count, payload=bytes(payload), eci=pending_eci,
                             start=seg_start, end=pos))
            pending_eci = None
    except DecodeError as ex:
        s.parse_error = str(ex)
    s.segments = segs
    s.end_of_segments = pos
    s.payload = b''.join(x['payload'] for x in segs)
    # ---- structure after the segments (ISO 7.4.9 / 7.4.10)
    tail = bits[pos:]
    s.tail = tail
    st = {}
    cap = n
    want_term = min(cap - pos, term_len)
    st['terminator_bits'] = want_term
    st['terminator_zero'] = not any(tail[:want_term])
    p = pos + want_term
    half = version in ('M1', 'M3')
    if half:
        # codeword boundaries: 8-bit codewords, final one is 4 bit
        full = (cap - 4)
        if p <= full:
            padz = (-p) % 8
        else:
            padz = cap - p
    else:
        padz = (-p) % 8
    st['align_pad_bits'] = padz
    st['align_pad_zero'] = not any(bits[p:p + padz])
    p += padz
    pads = []
    q = p
    while q + 8 <= (cap - 4 if half else cap):
        v = 0
        for b in bits[q:q + 8]:
            v = (v << 1) | b
        pads.append(v)
        q += 8
    st['pad_codewords'] = pads
    exp = [0xEC if i % 2 == 0 else 0x11 for i in range(len(pads))]
    st['pad_codewords_ok'] = pads == exp
    if half and q < cap:
        st['final_nibble'] = bits[q:cap]
        st['final_nibble_zero'] = not any(bits[q:cap])
    else:
        st['final_nibble'] = None
        st['final_nibble_zero'] = True
    st['remainder_zero'] = not any(s.remainder)
    s.structure = st
    return s


def expected_payload(content, mode=None, encoding=None):
    """Spec-level payload bytes for one content part (independent of segno)."""
    if isinstance(content, bytes):
        return content
    text = str(content)
    if mode == 'hanzi':
        return text.encode('gb2312')
    if encoding is not None:
        return text.encode(encoding)
    for enc in ('iso-8859-1', 'shift_jis', 'utf-8'):
        try:
            return text.encode(enc)
        except UnicodeError:
            continue
    raise AssertionError


def is_sjis_kanji_pairs(data):
    if not data or len(data) % 2:
        return False
    for i in range(0, len(data), 2):
        hi, lo = data[i], data[i + 1]
        if not (0x40 <= lo <= 0xFC and lo != 0x7F):
            return False
        code = (hi << 8) | lo
        if not (0x8140 <= code <= 0x9FFC or 0xE040 <= code <= 0xEBBF):
            return False
    return True


def expected_auto_mode(data):
    if data and all(0x30 <= b <= 0x39 for b in data):
        return 'numeric'
    if data and all(chr(b) in ALNUM for b in data):
        return 'alphanumeric'
    if is_sjis_kanji_pairs(data):
        return 'kanji'
    return 'byte'


def payload_bits(mode, nbytes):
    if mode == 'numeric':
        return 10 * (nbytes // 3) + (0, 4, 7)[nbytes % 3]
    if mode == 'alphanumeric':
        return 11 * (nbytes // 2) + 6 * (nbytes % 2)
    if mode == 'byte':
        return 8 * nbytes
    return 13 * (nbytes // 2)


def char_count(mode, nbytes):
    return nbytes // 2 if mode in ('kanji', 'hanzi') else nbytes


def segment_bits(version, mode, nbytes, eci_header=False):
    """Total bits a segment occupies in `version` or None if not available / count too large."""
    if is_micro(version):
        if mode == 'hanzi' or eci_header:
            return None
        cl = cci_len(version, mode)
        if cl is None:
            return None
        mi = int(version[1]) - 1
    else:
        cl = cci_len(version, mode)
        mi = 4 + (4 if mode == 'hanzi' else 0) + (12 if eci_header else 0)
    if char_count(mode, nbytes) >= (1 << cl):
        return None
    return mi + cl + payload_bits(mode, nbytes)


ALL_VERSIONS = MICRO_ORDER + list(range(1, 41))


def levels_of(version):
    if is_micro(version):
        return list(MICRO[version].keys())
    return [L, M, Q, H]


# ---------------------------------------------------------------- penalty scores (ISO 7.8.3)
def penalty_qr(m):
    size = len(m)
    n1 = n2 = n3 = 0
    lines = [list(r) for r in m] + [[m[r][c] for r in range(size)] for c in range(size)]
    for line in lines:
        run = 1
        for i in range(1, size + 1):
            if i < size and line[i] == line[i - 1]:
                run += 1
            else:
                if run >= 5:
                    n1 += 3 + (run - 5)
                run = 1
        # N3: every occurrence of 1011101 with 4 light modules (or symbol edge) on a side
        for i in range(size - 6):
            if line[i:i + 7] == [1, 0, 1, 1, 1, 0, 1]:
                before = line[max(0, i - 4):i]
                after = line[i + 7:i + 11]
                lb = (not any(before)) and (len(before) == 4 or i - len(before) == 0)
                la = (not any(after)) and (len(after) == 4 or i + 7 + len(after) == size)
                # 'four light modules or the symbol edge': fewer than 4 modules available
                # up to the edge count as light area if all available are light
                if lb or la:
                    n3 += 40
    for r in range(size - 1):
        for c in range(size - 1):
            v = m[r][c]
            if v == m[r][c + 1] == m[r + 1][c] == m[r + 1][c + 1]:
                n2 += 3
    dark = sum(sum(r) for r in m)
    pct = dark * 100.0 / (size * size)
    n4 = 10 * int(abs(pct - 50) / 5)
    return n1, n2, n3, n4


def score_micro(m):
    size = len(m)
    s1 = sum(m[i][size - 1] for i in range(1, size))
    s2 = sum(m[size - 1][i] for i in range(1, size))
    return s1 * 16 + s2 if s1 <= s2 else s2 * 16 + s1
