"""Self-test of the reference model against values printed in ISO/IEC 18004 itself (Annex C, D, E, I and Table 9),
so that the oracle is anchored in the standard and not only in its agreement with the code under test."""
from refmodel import qr


def run():
    problems = []

    def eq(what, got, want):
        if got != want:
            problems.append('%s: %r != %r' % (what, got, want))
    # Annex I: "01234567" in 1-M: data codewords and the ten error correction codewords
    data = [0x10, 0x20, 0x0C, 0x56, 0x61, 0x80, 0xEC, 0x11, 0xEC, 0x11, 0xEC, 0x11, 0xEC, 0x11, 0xEC, 0x11]
    eq('Annex I EC codewords', qr.rs_encode(data, 10), [0xA5, 0x24, 0xD4, 0xC1, 0xED, 0x36, 0xC7, 0x87, 0x2C, 0x55])
    eq('syndromes of the Annex I block', any(qr.rs_syndromes(data + qr.rs_encode(data, 10), 10)), False)
    # Annex C: format information, level M mask 0 is the bare mask pattern 101010000010010; Table C.1 row 00101 -> 0x40CE
    eq('format M/0', qr.format_word(1, 'M', 0), 0x5412)
    eq('format M/5', qr.format_word(1, 'M', 5), 0x40CE)
    eq('format L/0', qr.format_word(1, 'L', 0), 0x77C4)
    eq('format H/7', qr.format_word(1, 'H', 7), 0x083B)
    eq('format Micro M1/0', qr.format_word('M1', None, 0), 0x4445)
    # Annex D: version information
    eq('version 7', qr.version_word(7), 0x07C94)
    eq('version 40', qr.version_word(40), 0x28C69)
    # Annex E: alignment pattern centres
    eq('alignment v2', qr.alignment_positions(2), [6, 18])
    eq('alignment v7', qr.alignment_positions(7), [6, 22, 38])
    eq('alignment v32', qr.alignment_positions(32), [6, 34, 60, 86, 112, 138])
    eq('alignment v36', qr.alignment_positions(36), [6, 24, 50, 76, 102, 128, 154])
    eq('alignment v40', qr.alignment_positions(40), [6, 30, 58, 86, 114, 142, 170])
    # Table 1 / 9: data capacities (bits) and block structures
    eq('capacity 1-L', qr.data_bits_capacity(1, 'L'), 152)
    eq('capacity 40-L', qr.data_bits_capacity(40, 'L'), 23648)
    eq('capacity 40-H', qr.data_bits_capacity(40, 'H'), 10208)
    eq('capacity M3-M', qr.data_bits_capacity('M3', 'M'), 68)
    eq('blocks 5-Q', qr.block_layout(5, 'Q'), [(33, 15), (33, 15), (34, 16), (34, 16)])
    eq('blocks 40-H', (len(qr.block_layout(40, 'H')), qr.block_layout(40, 'H')[0], qr.block_layout(40, 'H')[-1]), (81, (45, 15), (46, 16)))
    eq('remainder bits v2/v14/v21/v7', [qr.remainder_bits(v) for v in (2, 14, 21, 7)], [7, 3, 4, 0])
    # a corrupted block is corrected
    cw = data + qr.rs_encode(data, 10)
    bad = list(cw)
    for i in (0, 7, 13, 20, 25):
        bad[i] ^= 0x5A
    eq('BM corrects 5 errors with 10 EC codewords', qr.rs_correct(bad, 10)[0], cw)
    return problems
